// Generated run configurations for the three integrators (shared by C03, C15, C12, C20 ...).
// A RunCfg<T> is decoded from the tape; Plain/Vegas/Multi<T, E> build the start checkpoint, run
// iterations from a checkpoint, serialise and reload it - all through the public API only.
#ifndef VERIF_RUNNERS_HPP
#define VERIF_RUNNERS_HPP

#include "hep/mc.hpp"

#include "gen.hpp"
#include "pwc.hpp"

#include <memory>
#include <random>
#include <sstream>
#include <string>
#include <vector>

namespace vf
{

template <typename T>
struct DistSpec
{
    bool two_d = false;
    std::size_t bx = 1, by = 1;
    T xmin = T(0), xmax = T(1), ymin = T(0), ymax = T(1);
    std::string name;
};

inline std::string gen_name(Tape& t)
{
    switch (t.pick(8))
    {
    case 0: return "dist";
    case 1: return "";                        // the default of make_dist_params
    case 2: return "pT of the leading jet";   // inner blanks
    case 3: return "  leading blanks";
    case 4: return "trailing blanks  ";
    case 5: return std::string(200, 'x');
    case 6: return " ";
    default:
    {
        std::uint64_t const k = t.range(0, 9);
        if (k == 5) { return "$m_T(\\mu\\nu_\\mu)$ with backslash-n inside"; }
        if (k == 6) { return "#jets (a name that starts like a comment line)"; }
        if (k == 7) { return "tab\tinside"; }
        if (k == 8) { return "ends with a carriage return\r"; }
        if (k == 9) { return "\x01 control \x1b[1m and high bytes \xc3\xa9\x7f"; }
        return "d sigma / d x [fb/GeV] #" + std::to_string(k);
    }
    }
}

template <typename T>
inline std::vector<DistSpec<T>> gen_dists(Tape& t, std::size_t max_count)
{
    std::vector<DistSpec<T>> v(t.pick(max_count + 1));
    for (auto& d : v)
    {
        d.two_d = t.pick(3) == 2;
        d.bx = 1 + t.pick(6);
        d.by = d.two_d ? 1 + t.pick(4) : 1;
        switch (t.pick(4))
        {
        case 0: d.xmin = T(0); d.xmax = T(1); break;
        case 1: d.xmin = T(-1); d.xmax = T(2); break;
        case 2: d.xmin = T(0.25); d.xmax = T(0.75); break;
        default: d.xmin = static_cast<T>(t.unit() * 0.5); d.xmax = d.xmin + static_cast<T>(0.1 + t.unit()); break;
        }
        d.ymin = T(0); d.ymax = T(1);
        if (d.two_d && t.flag()) { d.ymin = T(-0.5); d.ymax = T(0.5); }
        d.name = gen_name(t);
    }
    return v;
}

template <typename T>
inline std::vector<hep::distribution_parameters<T>> to_params(std::vector<DistSpec<T>> const& v)
{
    std::vector<hep::distribution_parameters<T>> p;
    for (auto const& d : v)
    {
        if (d.two_d) { p.emplace_back(d.bx, d.by, d.xmin, d.xmax, d.ymin, d.ymax, d.name); }
        else { p.emplace_back(d.bx, d.xmin, d.xmax, d.name); }
    }
    return p;
}

template <typename T>
inline std::string describe(std::vector<DistSpec<T>> const& v)
{
    std::ostringstream o;
    o << "dists[";
    for (auto const& d : v)
    {
        o << (d.two_d ? "2d " : "1d ") << d.bx << 'x' << d.by << " [" << show(d.xmin) << ',' << show(d.xmax) << "] '" << d.name.substr(0, 24) << "';";
    }
    o << ']';
    return o.str();
}

// deterministic integrand families (pure functions of the point)
template <typename T>
struct TestFn
{
    int family = 0;
    std::size_t dims = 1;
    std::vector<DistSpec<T>> dists;
    std::shared_ptr<std::size_t> counter = std::make_shared<std::size_t>(0); // calls so far (families that depend on it)
    T scale = T(1); // overall magnitude of the integrand (families 0-4)

    static std::vector<T> const& coords(hep::multi_channel_point<T> const& p) { return p.coordinates(); }
    static std::vector<T> const& coords(hep::mc_point<T> const& p) { return p.point(); }

    T value(std::vector<T> const& x) const
    {
        T const x0 = x[0];
        T const xl = x[dims - 1];
        switch (family)
        {
        case 0: { T v = scale; for (std::size_t j = 0; j != dims; ++j) { v *= T(0.5) + x[j]; } return v; }
        case 1: return (x0 < T(0.3)) ? T(0) : scale * (T(1) + xl);             // zero region
        case 2: return scale * (x0 - T(0.5) + T(0.25) * xl);                    // sign changing
        case 3: return scale * T(2);                                            // constant
        case 4: return scale / (T(0.01) + (x0 - T(0.4)) * (x0 - T(0.4)));      // peaked
        case 6: return std::numeric_limits<T>::quiet_NaN();                     // non-finite everywhere
        case 7: return ((*counter)++ % 2 == 0) ? T(1) : T(-1);                  // alternating: exact zero mean for even N (weight 1)
        case 8: return ((*counter)++ % 3 == 0) ? std::numeric_limits<T>::infinity() : T(0); // zero or infinite
        case 9: return (x0 > T(0.85)) ? std::numeric_limits<T>::quiet_NaN() : ((x0 < T(0.1)) ? T(0) : scale * (T(1) + xl)); // zero / finite / non-finite by region
        case 11: return (x0 < T(0.9)) ? T(0) : scale * (T(1) + xl);            // mostly zero: short iterations carry no information
        default: return T(0);                                                   // identically zero
        }
    }

    template <typename P>
    T operator()(P const& p, hep::projector<T>& proj) const
    {
        std::vector<T> const& x = coords(p);
        T const v = value(x);
        // family 12: the integrand vanishes, its distributions are filled nevertheless (the projector does not depend on the return value)
        T const d = family == 12 ? T(1) + x[0] : v;
        for (std::size_t i = 0; i != dists.size(); ++i)
        {
            if (dists[i].two_d) { proj.add(i, x[0], x[dims - 1] - T(0.25), d); }
            else { proj.add(i, x[i % dims], d); }
        }
        return v;
    }

    template <typename P>
    T operator()(P const& p) const { return value(coords(p)); }
};

enum Kind { PLAIN = 0, VEGAS = 1, MULTI = 2 };

template <typename T>
struct RunCfg
{
    int kind = PLAIN;
    std::size_t dims = 1;
    TestFn<T> fn;
    // vegas
    std::size_t bins = 8;
    T alpha = T(1.5);
    bool user_grid = false;
    std::vector<T> grid;        // dims * (bins + 1)
    // multi channel
    PwcFamily<T> fam;
    bool user_weights = false;
    std::vector<T> weights;
    T beta = T(0.25), minw = T(0);
    // common
    std::uint32_t seed = 1;

    std::string describe() const
    {
        std::ostringstream o;
        o << (kind == PLAIN ? "PLAIN" : kind == VEGAS ? "VEGAS" : "MULTI") << " d=" << dims << " f=" << fn.family << (fn.scale != T(1) ? " scale=" + show(fn.scale) : std::string()) << ' ' << vf::describe(fn.dists)
          << " seed=" << seed;
        if (kind == VEGAS) { o << " bins=" << bins << " alpha=" << show(alpha) << (user_grid ? " usergrid=" + show(grid, 12) : std::string(" defaultgrid")); }
        if (kind == MULTI)
        {
            o << ' ' << fam.describe() << " beta=" << show(beta) << " min=" << show(minw)
              << (user_weights ? " userweights=" + show(weights) : std::string(" defaultweights"));
        }
        return o.str();
    }
};

template <typename T>
inline RunCfg<T> gen_cfg(Tape& t, int force_kind = -1)
{
    RunCfg<T> c;
    c.kind = force_kind >= 0 ? force_kind : static_cast<int>(t.pick(3));
    c.dims = 1 + t.pick(3);
    c.fn.family = static_cast<int>(t.pick(5));
    c.fn.dists = gen_dists<T>(t, 3);
    c.seed = 1 + static_cast<std::uint32_t>(t.next() % 1000003u);
    if (c.kind == VEGAS)
    {
        c.bins = 2 + t.pick(30);
        switch (t.pick(4)) { case 0: c.alpha = T(1.5); break; case 1: c.alpha = T(0); break; case 2: c.alpha = static_cast<T>(4.0L / 3.0L); break;
                             default: c.alpha = static_cast<T>(3 * t.unit()); break; }
        c.user_grid = t.flag();
        if (c.user_grid)
        {
            c.grid.resize(c.dims * (c.bins + 1));
            for (std::size_t i = 0; i != c.dims; ++i)
            {
                std::vector<T> e;
                for (std::size_t b = 1; b < c.bins; ++b) { e.push_back(static_cast<T>(t.unit())); }
                std::sort(e.begin(), e.end());
                c.grid[i * (c.bins + 1)] = T(0);
                for (std::size_t b = 1; b < c.bins; ++b) { c.grid[i * (c.bins + 1) + b] = e[b - 1]; }
                c.grid[i * (c.bins + 1) + c.bins] = T(1);
            }
        }
    }
    if (c.kind == MULTI)
    {
        std::size_t const channels = 1 + t.pick(5);
        c.fam = gen_pwc<T>(t, 3, channels, 4);
        c.dims = c.fam.dims;
        switch (t.pick(4)) { case 0: c.beta = T(0.25); break; case 1: c.beta = T(1); break; case 2: c.beta = T(0); break; default: c.beta = static_cast<T>(0.05 + 0.9 * t.unit()); break; }
        switch (t.pick(3)) { case 0: c.minw = T(0); break; case 1: c.minw = T(0.5) / T(channels); break; default: c.minw = static_cast<T>(t.unit() * 0.9 / channels); break; }
        c.user_weights = t.flag();
        if (c.user_weights)
        {
            c.weights = gen_weights<T>(t, channels);
            c.weights.resize(channels, T(1));
        }
    }
    c.fn.dims = c.dims;
    return c;
}

template <typename T, typename E>
struct Plain
{
    using Chk = hep::plain_chkpt_with_rng<E, T>;
    using Base = hep::plain_chkpt<T>;
    static constexpr int kind = PLAIN;

    static Chk fresh(RunCfg<T> const& c) { return hep::make_plain_chkpt<T, E>(E(c.seed)); }
    static Chk load(std::istream& in) { return hep::make_plain_chkpt<T, E>(in); }

    template <typename Callback>
    static Chk run(RunCfg<T> const& c, Chk const& start, std::vector<std::size_t> const& calls, Callback cb)
    {
        if (c.fn.dists.empty())
        {
            hep::integrand<T, TestFn<T>, false> ig(c.fn, c.dims, std::vector<hep::distribution_parameters<T>>());
            return hep::plain(ig, calls, start, cb);
        }
        hep::integrand<T, TestFn<T>, true> ig(c.fn, c.dims, to_params(c.fn.dists));
        return hep::plain(ig, calls, start, cb);
    }
};

template <typename T, typename E>
struct Vegas
{
    using Chk = hep::vegas_chkpt_with_rng<E, T>;
    using Base = hep::vegas_chkpt<T>;
    static constexpr int kind = VEGAS;

    static Chk fresh(RunCfg<T> const& c)
    {
        if (c.user_grid)
        {
            hep::vegas_pdf<T> pdf(c.dims, c.bins);
            for (std::size_t i = 0; i != c.dims; ++i)
            {
                for (std::size_t b = 0; b <= c.bins; ++b) { pdf.set_bin_left(i, b, c.grid[i * (c.bins + 1) + b]); }
            }
            return hep::make_vegas_chkpt<T, E>(pdf, c.alpha, E(c.seed));
        }
        Chk chk = hep::make_vegas_chkpt<T, E>(c.bins, c.alpha, E(c.seed));
        chk.dimensions(c.dims); // a VEGAS checkpoint can only be serialised once its dimension is known
        return chk;
    }
    static Chk load(std::istream& in) { return hep::make_vegas_chkpt<T, E>(in); }

    template <typename Callback>
    static Chk run(RunCfg<T> const& c, Chk const& start, std::vector<std::size_t> const& calls, Callback cb)
    {
        if (c.fn.dists.empty())
        {
            hep::integrand<T, TestFn<T>, false> ig(c.fn, c.dims, std::vector<hep::distribution_parameters<T>>());
            return hep::vegas(ig, calls, start, cb);
        }
        hep::integrand<T, TestFn<T>, true> ig(c.fn, c.dims, to_params(c.fn.dists));
        return hep::vegas(ig, calls, start, cb);
    }
};

template <typename T, typename E>
struct Multi
{
    using Chk = hep::multi_channel_chkpt_with_rng<E, T>;
    using Base = hep::multi_channel_chkpt<T>;
    static constexpr int kind = MULTI;

    static Chk fresh(RunCfg<T> const& c)
    {
        if (c.user_weights) { return hep::make_multi_channel_chkpt<T, E>(c.weights, c.minw, c.beta, E(c.seed)); }
        Chk chk = hep::make_multi_channel_chkpt<T, E>(c.minw, c.beta, E(c.seed));
        chk.channels(c.fam.channels); // default weights are only known once the channel count is
        return chk;
    }
    static Chk load(std::istream& in) { return hep::make_multi_channel_chkpt<T, E>(in); }

    template <typename Callback>
    static Chk run(RunCfg<T> const& c, Chk const& start, std::vector<std::size_t> const& calls, Callback cb)
    {
        PwcMap<T> map{&c.fam, nullptr, nullptr};
        if (c.fn.dists.empty())
        {
            hep::multi_channel_integrand<T, TestFn<T>, PwcMap<T>, false> ig(c.fn, c.dims, map, c.fam.map_dims, c.fam.channels,
                std::vector<hep::distribution_parameters<T>>());
            return hep::multi_channel(ig, calls, start, cb);
        }
        hep::multi_channel_integrand<T, TestFn<T>, PwcMap<T>, true> ig(c.fn, c.dims, map, c.fam.map_dims, c.fam.channels, to_params(c.fn.dists));
        return hep::multi_channel(ig, calls, start, cb);
    }
};

template <typename Chk>
inline std::string text_of(Chk const& chk)
{
    std::ostringstream o;
    chk.serialize(o);
    return o.str();
}

// dispatch one choice to the nine standard engines
template <typename F>
inline void with_engine(Tape& t, F&& f)
{
    switch (t.pick(9))
    {
    case 0: f(std::mt19937(), "mt19937"); break;
    case 1: f(std::minstd_rand(), "minstd_rand"); break;
    case 2: f(std::mt19937_64(), "mt19937_64"); break;
    case 3: f(std::ranlux24_base(), "ranlux24_base"); break;
    case 4: f(std::ranlux48_base(), "ranlux48_base"); break;
    case 5: f(std::ranlux24(), "ranlux24"); break;
    case 6: f(std::ranlux48(), "ranlux48"); break;
    case 7: f(std::knuth_b(), "knuth_b"); break;
    default: f(std::minstd_rand0(), "minstd_rand0"); break;
    }
}

} // namespace vf

#endif
