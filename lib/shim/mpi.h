// In-process MPI shim for the verification harness (NOT an MPI implementation).
// Ranks are threads of one process, but only one of them runs at any time: a rank runs until it
// enters a collective (or returns), then the scheduler - owned by the generated case - picks the next
// rank. A collective completes when every rank has entered it; the reduction is carried out in a
// generated order (a permutation folded left to right, or pairwise as a binary tree). Every
// collective is logged per rank. A rank that returns while others wait inside a collective can never
// be matched: that is reported as a hang (logically, without any timeout) and the waiting ranks are
// unwound with an exception.
// A world may be a sub-communicator of a larger "global" world (set_global): MPI_COMM_WORLD then names
// a different communicator with a different size and different ranks than the one the harness passes
// to the library, as after MPI_Comm_split; a collective issued on it is recorded as an error.
#ifndef VERIF_SHIM_MPI_H
#define VERIF_SHIM_MPI_H

#include <condition_variable>
#include <cstddef>
#include <cstdint>
#include <cstring>
#include <exception>
#include <functional>
#include <memory>
#include <mutex>
#include <string>
#include <thread>
#include <vector>

namespace shim
{

enum Type { T_UNSIGNED, T_UNSIGNED_LONG, T_UNSIGNED_LONG_LONG, T_FLOAT, T_DOUBLE, T_LONG_DOUBLE };

struct Collective
{
    int kind;   // 0 = allreduce
    int count;
    int type;
    bool operator==(Collective const& o) const { return kind == o.kind && count == o.count && type == o.type; }
};

struct abort_rank : std::exception
{
    char const* what() const noexcept override { return "shim: rank unwound because the world can never complete this collective"; }
};

class World
{
public:
    explicit World(int size) : size_(size), state_(size, RUNNABLE), args_(size), log_(size) {}

    int size() const { return size_; }

    // make this world ranks [offset, offset + size) of a global world with `extra` further processes
    void set_global(int extra, int offset) { gextra_ = extra; goffset_ = offset; }
    World* global()
    {
        if (gextra_ <= 0) { return this; }
        if (!view_) { view_.reset(new World(size_ + gextra_)); view_->owner_ = this; }
        return view_.get();
    }
    World* owner() const { return owner_; }
    int rank_offset() const { return owner_ ? owner_->goffset_ : 0; }
    void note_error(std::string const& s) { std::unique_lock<std::mutex> lock(m_); errors_.push_back(s); }

    // schedule: order_[c] is the arrival order for the c-th scheduling round, reduce_order_[c] the
    // order in which the contributions of collective c are folded; tree_[c] selects pairwise reduction
    std::vector<std::vector<int>> order, reduce_order;
    std::vector<bool> tree;

    std::vector<std::vector<Collective>> const& log() const { return log_; }
    bool hang() const { return hang_; }
    std::string const& hang_text() const { return hang_text_; }
    std::vector<std::string> const& errors() const { return errors_; }

    // run body(rank) on every rank; returns when all ranks have finished (or were unwound)
    void run(std::function<void(int)> const& body);

    // called through the C API below
    void allreduce(void* buf, int count, int type);

    inline static thread_local World* current = nullptr;
    inline static thread_local int rank = 0;

private:
    enum State { RUNNABLE, WAITING, DONE };

    void yield_from(int me, std::unique_lock<std::mutex>& lock);
    int pick_next();
    void complete_collective();

    int size_;
    std::mutex m_;
    std::condition_variable cv_;
    int baton_ = -1;
    std::vector<State> state_;
    struct Args { void* buf; int count; int type; };
    std::vector<Args> args_;
    std::vector<std::vector<Collective>> log_;
    std::size_t round_ = 0, collectives_done_ = 0;
    bool hang_ = false, abort_ = false;
    std::string hang_text_;
    std::vector<std::string> errors_;
    int gextra_ = 0, goffset_ = 0;
    std::unique_ptr<World> view_;
    World* owner_ = nullptr;
};

inline std::size_t type_size(int t)
{
    switch (t)
    {
    case T_UNSIGNED: return sizeof(unsigned);
    case T_UNSIGNED_LONG: return sizeof(unsigned long);
    case T_UNSIGNED_LONG_LONG: return sizeof(unsigned long long);
    case T_FLOAT: return sizeof(float);
    case T_DOUBLE: return sizeof(double);
    default: return sizeof(long double);
    }
}

template <typename V>
inline void fold(std::vector<V*> const& in, int count, std::vector<int> const& ord, bool tree, V* out)
{
    std::size_t const n = ord.size();
    for (int i = 0; i != count; ++i)
    {
        if (!tree)
        {
            V acc = in[ord[0]][i];
            for (std::size_t r = 1; r < n; ++r) { acc = acc + in[ord[r]][i]; }
            out[i] = acc;
        }
        else
        {
            std::vector<V> level(n);
            for (std::size_t r = 0; r != n; ++r) { level[r] = in[ord[r]][i]; }
            std::size_t len = n;
            while (len > 1)
            {
                std::size_t k = 0;
                for (std::size_t r = 0; r + 1 < len; r += 2) { level[k++] = level[r] + level[r + 1]; }
                if (len % 2) { level[k++] = level[len - 1]; }
                len = k;
            }
            out[i] = level[0];
        }
    }
}

inline int World::pick_next()
{
    // the first runnable rank in the generated order of this round
    std::vector<int> const* ord = round_ < order.size() ? &order[round_] : nullptr;
    if (ord)
    {
        for (int r : *ord) { if (r >= 0 && r < size_ && state_[r] == RUNNABLE) { return r; } }
    }
    for (int r = 0; r != size_; ++r) { if (state_[r] == RUNNABLE) { return r; } }
    return -1;
}

inline void World::complete_collective()
{
    // every rank is waiting: the calls must match
    bool match = true;
    for (int r = 1; r != size_; ++r) { if (args_[r].count != args_[0].count || args_[r].type != args_[0].type) { match = false; } }
    if (!match)
    {
        errors_.push_back("collective " + std::to_string(collectives_done_) + ": ranks disagree on count / datatype");
        abort_ = true;
    }
    else
    {
        int const count = args_[0].count, type = args_[0].type;
        std::vector<int> ord;
        if (collectives_done_ < reduce_order.size()) { ord = reduce_order[collectives_done_]; }
        if (ord.size() != static_cast<std::size_t>(size_)) { ord.clear(); for (int r = 0; r != size_; ++r) { ord.push_back(r); } }
        bool const tr = collectives_done_ < tree.size() && tree[collectives_done_];
        std::size_t const bytes = type_size(type) * static_cast<std::size_t>(count);
        std::vector<unsigned char> result(bytes ? bytes : 1);
#define SHIM_FOLD(V)                                                                                     \
        {                                                                                                \
            std::vector<V*> in(size_);                                                                   \
            for (int r = 0; r != size_; ++r) { in[r] = static_cast<V*>(args_[r].buf); }                  \
            fold<V>(in, count, ord, tr, reinterpret_cast<V*>(result.data()));                           \
        }
        switch (type)
        {
        case T_UNSIGNED: SHIM_FOLD(unsigned) break;
        case T_UNSIGNED_LONG: SHIM_FOLD(unsigned long) break;
        case T_UNSIGNED_LONG_LONG: SHIM_FOLD(unsigned long long) break;
        case T_FLOAT: SHIM_FOLD(float) break;
        case T_DOUBLE: SHIM_FOLD(double) break;
        default: SHIM_FOLD(long double) break;
        }
#undef SHIM_FOLD
        for (int r = 0; r != size_; ++r) { if (bytes) { std::memcpy(args_[r].buf, result.data(), bytes); } }
    }
    ++collectives_done_;
    for (int r = 0; r != size_; ++r) { if (state_[r] == WAITING) { state_[r] = RUNNABLE; } }
}

// hands the baton on; returns when rank `me` holds it again (or never, if `me` is DONE)
inline void World::yield_from(int me, std::unique_lock<std::mutex>& lock)
{
    ++round_;
    int next = pick_next();
    if (next < 0)
    {
        bool any_waiting = false, any_done = false;
        for (int r = 0; r != size_; ++r) { any_waiting |= state_[r] == WAITING; any_done |= state_[r] == DONE; }
        if (any_waiting && !any_done) { complete_collective(); }
        else if (any_waiting && any_done)
        {
            // some ranks returned, the others wait for them inside a collective: in a real run they hang
            hang_ = true;
            std::string who;
            for (int r = 0; r != size_; ++r) { if (state_[r] == WAITING) { who += (who.empty() ? "" : ",") + std::to_string(r); } }
            hang_text_ = "rank(s) " + who + " wait in collective " + std::to_string(collectives_done_) + " while the other ranks have returned";
            abort_ = true;
            for (int r = 0; r != size_; ++r) { if (state_[r] == WAITING) { state_[r] = RUNNABLE; } }
        }
        next = pick_next();
    }
    baton_ = next;
    cv_.notify_all();
    if (state_[me] == DONE) { return; }
    cv_.wait(lock, [&] { return baton_ == me; });
}

inline void World::allreduce(void* buf, int count, int type)
{
    int const me = rank;
    std::unique_lock<std::mutex> lock(m_);
    log_[me].push_back(Collective{0, count, type});
    args_[me] = Args{buf, count, type};
    state_[me] = WAITING;
    yield_from(me, lock);
    if (abort_) { throw abort_rank(); }
}

inline void World::run(std::function<void(int)> const& body)
{
    std::vector<std::thread> threads;
    {
        std::unique_lock<std::mutex> lock(m_);
        baton_ = -2; // nobody yet
    }
    for (int r = 0; r != size_; ++r)
    {
        threads.emplace_back([this, r, &body] {
            World::current = this;
            World::rank = r;
            {
                std::unique_lock<std::mutex> lock(m_);
                cv_.wait(lock, [&] { return baton_ == r; });
            }
            try { body(r); }
            catch (abort_rank const&) {}
            catch (std::exception const& e)
            {
                std::unique_lock<std::mutex> lock(m_);
                errors_.push_back("rank " + std::to_string(r) + " threw: " + e.what());
            }
            std::unique_lock<std::mutex> lock(m_);
            state_[r] = DONE;
            yield_from(r, lock);
        });
    }
    {
        std::unique_lock<std::mutex> lock(m_);
        baton_ = pick_next();
        cv_.notify_all();
    }
    for (auto& t : threads) { t.join(); }
}

} // namespace shim

// ---- the subset of the MPI C API that hep-mc uses ---------------------------------------------------

typedef shim::World* MPI_Comm;
typedef int MPI_Datatype;
typedef int MPI_Op;

#define MPI_COMM_WORLD (shim::World::current->global())
#define MPI_IN_PLACE (reinterpret_cast<void*>(-1))
#define MPI_SUM 1
#define MPI_UNSIGNED (static_cast<MPI_Datatype>(shim::T_UNSIGNED))
#define MPI_UNSIGNED_LONG (static_cast<MPI_Datatype>(shim::T_UNSIGNED_LONG))
#define MPI_UNSIGNED_LONG_LONG (static_cast<MPI_Datatype>(shim::T_UNSIGNED_LONG_LONG))
#define MPI_FLOAT (static_cast<MPI_Datatype>(shim::T_FLOAT))
#define MPI_DOUBLE (static_cast<MPI_Datatype>(shim::T_DOUBLE))
#define MPI_LONG_DOUBLE (static_cast<MPI_Datatype>(shim::T_LONG_DOUBLE))
#define MPI_SUCCESS 0

inline int MPI_Comm_rank(MPI_Comm comm, int* rank) { *rank = shim::World::rank + comm->rank_offset(); return MPI_SUCCESS; }
inline int MPI_Comm_size(MPI_Comm comm, int* size) { *size = comm->size(); return MPI_SUCCESS; }

inline int MPI_Allreduce(void const* sendbuf, void* recvbuf, int count, MPI_Datatype type, MPI_Op, MPI_Comm comm)
{
    // hep-mc only uses MPI_IN_PLACE
    if (sendbuf != MPI_IN_PLACE && sendbuf != recvbuf) { std::memcpy(recvbuf, sendbuf, shim::type_size(type) * static_cast<std::size_t>(count)); }
    if (comm->owner())
    {
        comm->owner()->note_error("a collective was issued on MPI_COMM_WORLD although the caller passed a sub-communicator");
        comm = comm->owner();
    }
    comm->allreduce(recvbuf, count, type);
    return MPI_SUCCESS;
}

#endif
