// Choice tape: every generated case is a pure function of a finite sequence of 64-bit choices.
// An exhausted tape yields 0 and every decoder maps choice 0 to its simplest alternative, so
// deleting / lowering choices (rapidcheck shrinking, delta debugging) yields simpler valid cases.
#ifndef VERIF_TAPE_HPP
#define VERIF_TAPE_HPP

#include <cstdint>
#include <cstdio>
#include <cstring>
#include <cmath>
#include <limits>
#include <sstream>
#include <string>
#include <vector>

namespace vf
{

inline std::uint64_t splitmix64(std::uint64_t x)
{
    x += 0x9E3779B97F4A7C15ull;
    x = (x ^ (x >> 30)) * 0xBF58476D1CE4E5B9ull;
    x = (x ^ (x >> 27)) * 0x94D049BB133111EBull;
    return x ^ (x >> 31);
}

inline std::uint64_t mix2(std::uint64_t a, std::uint64_t b)
{
    return splitmix64(splitmix64(a) ^ (b * 0xD6E8FEB86659FD93ull + 0x2545F4914F6CDD1Dull));
}

class Tape
{
public:
    Tape() = default;
    explicit Tape(std::vector<std::uint64_t> v) : v_(std::move(v)) {}

    std::vector<std::uint64_t> const& data() const { return v_; }
    std::size_t used() const { return pos_; }
    bool exhausted() const { return pos_ >= v_.size(); }
    void rewind() { pos_ = 0; }

    // raw next choice (0 when exhausted)
    std::uint64_t next()
    {
        if (pos_ < v_.size()) { return v_[pos_++]; }
        ++pos_;
        return 0;
    }

    // integer in [lo, hi] (inclusive); choice 0 -> lo
    std::uint64_t range(std::uint64_t lo, std::uint64_t hi)
    {
        std::uint64_t const c = next();
        if (hi <= lo) { return lo; }
        std::uint64_t const span = hi - lo + 1;
        if (span == 0) { return c; } // full range
        return lo + c % span;
    }

    // index in [0, k)
    std::size_t pick(std::size_t k) { return k <= 1 ? (next(), 0) : static_cast<std::size_t>(next() % k); }

    bool flag() { return (next() & 1u) != 0; }

    // true with probability ~ num/den for well-mixed choices; choice 0 -> false
    bool chance(unsigned num, unsigned den)
    {
        std::uint64_t const c = next();
        if (c == 0) { return false; }
        return (splitmix64(c) % den) < num;
    }

    // 64 well-mixed bits derived from one choice (small choices still spread out)
    std::uint64_t bits() { return splitmix64(next()); }

    // uniform in [0,1) with 53 bits, derived from mixed bits; choice 0 gives a fixed generic value,
    // therefore callers that want a "simple" value use their own class selection first
    double unit() { return static_cast<double>(bits() >> 11) * (1.0 / 9007199254740992.0); }

    // a sub-stream seed for bulk data (pattern streams)
    std::uint64_t stream_seed() { return next(); }

    std::string hex() const
    {
        std::ostringstream o;
        for (std::size_t i = 0; i != v_.size(); ++i)
        {
            if (i) { o << ' '; }
            o << std::hex << v_[i];
        }
        return o.str();
    }

    static bool parse_hex(std::string const& line, std::vector<std::uint64_t>& out)
    {
        out.clear();
        std::istringstream in(line);
        std::string tok;
        while (in >> tok)
        {
            char* end = nullptr;
            unsigned long long const v = std::strtoull(tok.c_str(), &end, 16);
            if (end == tok.c_str() || *end != '\0') { return false; }
            out.push_back(v);
        }
        return true;
    }

private:
    std::vector<std::uint64_t> v_;
    std::size_t pos_ = 0;
};

// replay file: first non-comment line "tape: <hex words>", everything else is commentary
inline bool read_tape_file(std::string const& path, std::vector<std::uint64_t>& out)
{
    std::FILE* f = std::fopen(path.c_str(), "r");
    if (!f) { return false; }
    std::string content;
    char buf[4096];
    std::size_t n;
    while ((n = std::fread(buf, 1, sizeof buf, f)) > 0) { content.append(buf, n); }
    std::fclose(f);
    std::istringstream in(content);
    std::string line;
    while (std::getline(in, line))
    {
        if (line.compare(0, 5, "tape:") == 0)
        {
            return Tape::parse_hex(line.substr(5), out);
        }
    }
    return false;
}

inline void write_tape_file(std::string const& path, std::vector<std::uint64_t> const& tape,
    std::string const& property, std::string const& message, std::string const& description)
{
    std::FILE* f = std::fopen(path.c_str(), "w");
    if (!f) { return; }
    std::fprintf(f, "# property=%s\n", property.c_str());
    std::fprintf(f, "tape: %s\n", Tape(tape).hex().c_str());
    auto comment = [&](char const* tag, std::string const& s) {
        std::istringstream in(s);
        std::string line;
        while (std::getline(in, line)) { std::fprintf(f, "# %s %s\n", tag, line.c_str()); }
    };
    comment("failure:", message);
    comment("case:", description);
    std::fclose(f);
}

// compact byte encoding used by the libFuzzer driver: byte < 0xff is the value itself,
// 0xff introduces 8 little-endian bytes
inline std::vector<std::uint64_t> tape_from_bytes(std::uint8_t const* d, std::size_t n)
{
    std::vector<std::uint64_t> t;
    std::size_t i = 0;
    while (i < n)
    {
        if (d[i] != 0xff) { t.push_back(d[i]); ++i; continue; }
        ++i;
        std::uint64_t v = 0;
        for (unsigned k = 0; k != 8 && i < n; ++k, ++i) { v |= static_cast<std::uint64_t>(d[i]) << (8 * k); }
        t.push_back(v);
    }
    return t;
}

inline std::vector<std::uint8_t> bytes_from_tape(std::vector<std::uint64_t> const& t)
{
    std::vector<std::uint8_t> b;
    for (auto v : t)
    {
        if (v < 0xff) { b.push_back(static_cast<std::uint8_t>(v)); continue; }
        b.push_back(0xff);
        for (unsigned k = 0; k != 8; ++k) { b.push_back(static_cast<std::uint8_t>(v >> (8 * k))); }
    }
    return b;
}

} // namespace vf

#endif
