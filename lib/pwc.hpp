// PWC channel family: the multi-channel analogue of a VEGAS grid with an exact oracle.
// Per dimension a common partition 0 = t_0 < ... < t_B = 1; channel i puts mass k[i][d][b] / K
// (integers, sum over b = K, zeros allowed) into cell b, i.e. a normalised piecewise-constant
// density and a piecewise-linear map; the density of a point is the product over dimensions.
// A common factor c(x) > 0 can be multiplied onto every written density and returned as the
// jacobian. Everything the map does is logged so that oracles can work from the log.
#ifndef VERIF_PWC_HPP
#define VERIF_PWC_HPP

#include "gen.hpp"

#include "hep/mc/multi_channel_map.hpp"

#include <cstddef>
#include <limits>
#include <sstream>
#include <vector>

namespace vf
{

template <typename T>
struct PwcFamily
{
    std::size_t dims = 1, channels = 1, cells = 1, map_dims = 1;
    unsigned K = 1;
    std::vector<T> t;            // [d * (cells+1) + b]
    std::vector<unsigned> k;     // [(i * dims + d) * cells + b]
    int jac_mode = 0;            // 0: c = 1; 1: c = 1 + x_0; 2: c = 2
    bool dens_early = false;     // densities already written in the calculate_coordinates call
    bool fill_disabled = false;  // write a finite value into the slots of disabled channels
    bool coord_returns_zero = false; // the value returned by the calculate_coordinates call is documented as ignored

    T edge(std::size_t d, std::size_t b) const { return t[d * (cells + 1) + b]; }
    unsigned mass(std::size_t i, std::size_t d, std::size_t b) const { return k[(i * dims + d) * cells + b]; }

    T common_factor(std::vector<T> const& x) const
    {
        switch (jac_mode)
        {
        case 1: return T(1) + x[0];
        case 2: return T(2);
        default: return T(1);
        }
    }

    // cell of x in dimension d (x on an edge belongs to the cell on its right, 1 to the last)
    std::size_t cell_of(std::size_t d, T x) const
    {
        std::size_t b = 0;
        while (b + 1 < cells && x >= edge(d, b + 1)) { ++b; }
        return b;
    }

    // normalised density of channel i at x (product over dimensions)
    T density(std::size_t i, std::vector<T> const& x) const
    {
        T p = T(1);
        for (std::size_t d = 0; d != dims; ++d)
        {
            std::size_t const b = cell_of(d, x[d]);
            p *= (T(mass(i, d, b)) / T(K)) / (edge(d, b + 1) - edge(d, b));
        }
        return p;
    }

    // piecewise-linear map of channel i: r in [0,1)^dims -> x
    void map(std::size_t i, std::vector<T> const& r, std::vector<T>& x) const
    {
        for (std::size_t d = 0; d != dims; ++d)
        {
            T const rr = r[d] * T(K); // in [0, K)
            unsigned below = 0, below_last = 0;
            std::size_t b = 0, last = 0;
            // find the cell whose cumulative mass interval contains r (cells without mass are skipped)
            for (; b != cells; ++b)
            {
                unsigned const m = mass(i, d, b);
                if (m == 0) { continue; }
                last = b;
                below_last = below;
                if (rr < T(below + m)) { break; }
                below += m;
            }
            // rounding may push r*K to K exactly: use the last cell with mass
            if (b == cells) { b = last; below = below_last; }
            T const frac = (rr - T(below)) / T(mass(i, d, b));
            x[d] = edge(d, b) + frac * (edge(d, b + 1) - edge(d, b));
        }
    }

    std::string describe() const
    {
        std::ostringstream o;
        o << "pwc{dims=" << dims << ",ch=" << channels << ",cells=" << cells << ",K=" << K << ",mapdims=" << map_dims
          << ",jac=" << jac_mode << (dens_early ? ",early" : ",late") << (fill_disabled ? ",filldis" : "") << (coord_returns_zero ? ",coord0" : "") << ",t=" << show(t) << ",k=[";
        for (std::size_t j = 0; j != k.size(); ++j) { o << (j ? "," : "") << k[j]; }
        o << "]}";
        return o.str();
    }
};

// the family is built so that every channel in every dimension has total mass K
template <typename T>
inline PwcFamily<T> gen_pwc(Tape& t, std::size_t max_dims, std::size_t channels, std::size_t max_cells)
{
    PwcFamily<T> f;
    f.dims = 1 + t.pick(max_dims);
    f.channels = channels;
    f.cells = 1 + t.pick(max_cells);
    f.K = 1u << t.pick(4);
    f.map_dims = f.dims + t.pick(3);
    f.jac_mode = static_cast<int>(t.pick(3));
    f.dens_early = t.flag();
    f.fill_disabled = t.flag();
    f.coord_returns_zero = t.pick(4) == 0;
    f.t.resize(f.dims * (f.cells + 1));
    for (std::size_t d = 0; d != f.dims; ++d)
    {
        bool const uniform = t.pick(3) == 0;
        std::vector<T> e(f.cells + 1);
        e[0] = T(0);
        e[f.cells] = T(1);
        if (uniform)
        {
            for (std::size_t b = 1; b < f.cells; ++b) { e[b] = T(b) / T(f.cells); }
        }
        else
        {
            // strictly increasing interior edges from dyadic fractions (exactly representable)
            std::vector<unsigned> cuts;
            for (std::size_t b = 1; b < f.cells; ++b) { cuts.push_back(1 + static_cast<unsigned>(t.range(0, 1022))); }
            std::sort(cuts.begin(), cuts.end());
            for (std::size_t b = 1; b < cuts.size(); ++b) { if (cuts[b] <= cuts[b - 1]) { cuts[b] = cuts[b - 1] + 1; } }
            for (std::size_t b = 1; b < f.cells; ++b) { e[b] = T(cuts[b - 1]) / T(2048); }
        }
        for (std::size_t b = 0; b <= f.cells; ++b) { f.t[d * (f.cells + 1) + b] = e[b]; }
    }
    f.k.assign(f.channels * f.dims * f.cells, 0);
    for (std::size_t i = 0; i != f.channels; ++i)
    {
        for (std::size_t d = 0; d != f.dims; ++d)
        {
            // distribute K mass units over the cells
            unsigned left = f.K;
            for (std::size_t b = 0; b + 1 < f.cells; ++b)
            {
                unsigned const m = static_cast<unsigned>(t.range(0, left));
                f.k[(i * f.dims + d) * f.cells + b] = m;
                left -= m;
            }
            f.k[(i * f.dims + d) * f.cells + f.cells - 1] = left;
        }
    }
    return f;
}

struct PwcEvent
{
    enum Kind { Coordinates, Densities } kind;
    std::size_t channel;
};

// the channel map handed to hep-mc (copied by the integrand: all state lives behind pointers)
template <typename T>
struct PwcMap
{
    PwcFamily<T> const* fam;
    std::vector<PwcEvent>* log; // may be null
    std::vector<T>* poison_jacobian; // may be null: if non-empty, value returned as jacobian for the next densities call
    T poison_above = T(2);           // the jacobian is +infinity for points whose first coordinate exceeds this (2 = never)

    void write_densities(std::vector<T> const& x, std::vector<std::size_t> const& enabled, std::vector<T>& dens, T c) const
    {
        if (fam->fill_disabled)
        {
            for (auto& v : dens) { v = T(0.5); }
        }
        for (std::size_t ch : enabled) { dens[ch] = c * fam->density(ch, x); }
    }

    T operator()(std::size_t channel, std::vector<T> const& rn, std::vector<T>& coords,
        std::vector<std::size_t> const& enabled, std::vector<T>& dens, hep::multi_channel_map action) const
    {
        if (action == hep::multi_channel_map::calculate_coordinates)
        {
            if (log) { log->push_back({PwcEvent::Coordinates, channel}); }
            std::vector<T> x(fam->dims);
            fam->map(channel, rn, x);
            for (std::size_t d = 0; d != fam->dims; ++d) { coords[d] = x[d]; }
            for (std::size_t d = fam->dims; d < coords.size(); ++d) { coords[d] = T(d); }
            T const c = fam->common_factor(x);
            if (fam->dens_early) { write_densities(x, enabled, dens, c); }
            return fam->coord_returns_zero ? T(0) : c;
        }
        if (log) { log->push_back({PwcEvent::Densities, channel}); }
        std::vector<T> x(coords.begin(), coords.begin() + fam->dims);
        T const c = fam->common_factor(x);
        if (!fam->dens_early) { write_densities(x, enabled, dens, c); }
        if (coords[0] > poison_above) { return std::numeric_limits<T>::infinity(); }
        if (poison_jacobian && !poison_jacobian->empty())
        {
            T const v = poison_jacobian->back();
            poison_jacobian->pop_back();
            if (!(v == T(-1))) { return v; } // -1 stands for "this request is answered normally"
        }
        return c;
    }
};

} // namespace vf

#endif
