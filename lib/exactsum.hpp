// Exact summation of floating point numbers of type T (Shewchuk's non-overlapping expansions,
// the algorithm behind Python's math.fsum), used as oracle only. Works for float / double (SSE,
// no excess precision) and x87 long double under round-to-nearest.
#ifndef VERIF_EXACTSUM_HPP
#define VERIF_EXACTSUM_HPP

#include <cmath>
#include <cstddef>
#include <vector>

namespace vf
{

template <typename T>
class ExactSum
{
public:
    void add(T x)
    {
        abs_sum_ += static_cast<long double>(x < T(0) ? -x : x);
        ++count_;
        std::size_t i = 0;
        for (std::size_t j = 0; j != partials_.size(); ++j)
        {
            T y = partials_[j];
            if (std::fabs(x) < std::fabs(y)) { T const tmp = x; x = y; y = tmp; }
            volatile T hi = x + y;
            volatile T yr = hi - x;
            T const lo = y - yr;
            if (lo != T(0)) { partials_[i++] = lo; }
            x = hi;
        }
        partials_.resize(i);
        partials_.push_back(x);
    }

    // the exact sum rounded to T (round-half-even on the expansion, as in fsum)
    T rounded() const
    {
        if (partials_.empty()) { return T(0); }
        std::size_t n = partials_.size();
        T hi = partials_[--n];
        T lo = T(0);
        while (n > 0)
        {
            T const x = hi;
            T const y = partials_[--n];
            volatile T h = x + y;
            volatile T yr = h - x;
            lo = y - yr;
            hi = h;
            if (lo != T(0)) { break; }
        }
        if (n > 0 && ((lo < T(0) && partials_[n - 1] < T(0)) || (lo > T(0) && partials_[n - 1] > T(0))))
        {
            T const y = lo * T(2);
            volatile T x = hi + y;
            volatile T yr = x - hi;
            if (y == yr) { hi = x; }
        }
        return hi;
    }

    // the exact sum as long double (rounded once more if T is long double; exact enough for tolerances)
    long double value() const
    {
        long double s = 0;
        for (std::size_t i = partials_.size(); i-- > 0;) { s += static_cast<long double>(partials_[i]); }
        return s;
    }

    long double abs_sum() const { return abs_sum_; } // sum of magnitudes (long double accumulation)
    std::size_t count() const { return count_; }

private:
    std::vector<T> partials_;
    long double abs_sum_ = 0;
    std::size_t count_ = 0;
};

} // namespace vf

#endif
