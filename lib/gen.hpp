// Shared decoders (generators on the choice tape) and small numeric helpers.
#ifndef VERIF_GEN_HPP
#define VERIF_GEN_HPP

#include "tape.hpp"

#include <algorithm>
#include <cmath>
#include <cstdint>
#include <cstring>
#include <iomanip>
#include <limits>
#include <sstream>
#include <string>
#include <type_traits>
#include <vector>

namespace vf
{

template <typename T> struct type_name;
template <> struct type_name<float> { static char const* get() { return "float"; } };
template <> struct type_name<double> { static char const* get() { return "double"; } };
template <> struct type_name<long double> { static char const* get() { return "long double"; } };

template <typename T>
inline std::string show(T v)
{
    std::ostringstream o;
    o << std::setprecision(std::numeric_limits<T>::max_digits10) << v;
    return o.str();
}

template <typename T>
inline std::string show(std::vector<T> const& v, std::size_t max = 48)
{
    std::ostringstream o;
    o << '[';
    for (std::size_t i = 0; i != v.size(); ++i)
    {
        if (i) { o << ','; }
        if (i == max) { o << "...(" << v.size() << ")"; break; }
        o << std::setprecision(std::numeric_limits<T>::max_digits10) << v[i];
    }
    o << ']';
    return o.str();
}

// number of value bytes of T (x87 long double: 10 of 16)
template <typename T> constexpr std::size_t value_bytes() { return sizeof(T); }
template <> constexpr std::size_t value_bytes<long double>() { return 10; }

template <typename T>
inline bool same_bits(T a, T b)
{
    return std::memcmp(&a, &b, value_bytes<T>()) == 0;
}

template <typename T>
inline bool same_bits(std::vector<T> const& a, std::vector<T> const& b)
{
    if (a.size() != b.size()) { return false; }
    for (std::size_t i = 0; i != a.size(); ++i) { if (!same_bits(a[i], b[i])) { return false; } }
    return true;
}

template <typename T> constexpr T eps() { return std::numeric_limits<T>::epsilon(); }

// call f(T{}) for the numeric type selected by one choice: 0 double, 1 float, 2 long double
template <typename F>
inline void with_type(Tape& t, F&& f)
{
    switch (t.pick(3))
    {
    case 0: f(double()); break;
    case 1: f(float()); break;
    default: f(static_cast<long double>(0)); break;
    }
}

// finite T from a raw bit pattern (reaches denormals, -0, largest finite, all-digit values)
template <typename T> inline T from_bits(std::uint64_t b);

template <> inline float from_bits<float>(std::uint64_t b)
{
    std::uint32_t u = static_cast<std::uint32_t>(b ^ (b >> 32));
    float f;
    std::memcpy(&f, &u, sizeof f);
    if (!std::isfinite(f)) { u &= 0xff7fffffu; u ^= 0x00800000u; std::memcpy(&f, &u, sizeof f); }
    if (!std::isfinite(f)) { f = std::numeric_limits<float>::max(); }
    return f;
}

template <> inline double from_bits<double>(std::uint64_t b)
{
    double d;
    std::memcpy(&d, &b, sizeof d);
    if (!std::isfinite(d)) { b ^= 0x0010000000000000ull; std::memcpy(&d, &b, sizeof d); }
    if (!std::isfinite(d)) { d = std::numeric_limits<double>::max(); }
    return d;
}

template <> inline long double from_bits<long double>(std::uint64_t b)
{
    // build a valid x87 value: 64-bit mantissa with explicit integer bit, 15-bit exponent, sign
    std::uint64_t const h = splitmix64(b ^ 0xabcdef);
    int const exp_field = static_cast<int>(h % 32767u); // 0 .. 32766 (no inf/nan)
    std::uint64_t mant = b;
    if (exp_field == 0) { mant &= ~(1ull << 63); } // denormal / zero
    else { mant |= (1ull << 63); }
    unsigned char raw[16] = {0};
    std::memcpy(raw, &mant, 8);
    std::uint16_t se = static_cast<std::uint16_t>(exp_field | ((h >> 40) & 1u ? 0x8000u : 0u));
    std::memcpy(raw + 8, &se, 2);
    long double v;
    std::memcpy(&v, raw, sizeof v);
    if (!std::isfinite(v)) { v = std::numeric_limits<long double>::max(); }
    return v;
}

enum : unsigned
{
    R_NEG = 1u,      // allow negative values
    R_ZERO = 2u,     // allow exact zero
    R_WIDE = 4u,     // allow the whole exponent range / raw bit patterns
    R_ALL = 7u
};

// A real number of type T. Class 0 is the simplest value (1, or 0 if only zero allowed).
// `scale_decades` bounds the log-uniform class when R_WIDE is not set.
template <typename T>
inline T gen_real(Tape& t, unsigned flags = R_ALL, int decades = 6)
{
    std::size_t const cls = t.pick(8);
    T v;
    switch (cls)
    {
    case 0: v = T(1); break;
    case 1: v = (flags & R_ZERO) ? T(0) : T(2); break;
    case 2: v = T(static_cast<long double>(t.range(0, 16))); break;                       // small integers
    case 3: v = T(static_cast<long double>(t.range(0, 1024)) / 1024.0L); break;           // dyadic fractions
    case 4: v = T(t.unit()); break;                                                       // uniform [0,1)
    case 5:
    {
        // log-uniform magnitude with a random mantissa
        int const span = (flags & R_WIDE)
            ? (std::numeric_limits<T>::max_exponent10 - 1) : decades;
        double const e = (t.unit() * 2.0 - 1.0) * span;
        long double const m = 1.0L + static_cast<long double>(t.unit());
        v = T(m * std::pow(10.0L, static_cast<long double>(e)));
        break;
    }
    case 6:
        if (flags & R_WIDE) { v = from_bits<T>(t.bits()); }
        else { v = T(static_cast<long double>(t.bits() >> 11) / 9007199254740992.0L * 4.0L); }
        break;
    default:
    {
        // neighbour of a simple value
        T const base = T(static_cast<long double>(t.range(0, 8)) / 8.0L);
        v = std::nextafter(base, t.flag() ? T(2) : T(-1));
        break;
    }
    }
    if (!std::isfinite(v)) { v = std::numeric_limits<T>::max(); }
    if ((flags & R_NEG) && cls != 0 && t.flag()) { v = -v; }
    if (!(flags & R_NEG) && v < T(0)) { v = -v; }
    if (!(flags & R_ZERO) && v == T(0)) { v = T(1); }
    return v;
}


// channel weight vector: at least one positive, all finite, none negative (what callers pass)
template <typename T>
inline std::vector<T> gen_weights(Tape& t, std::size_t max_n, std::string* how = nullptr)
{
    std::size_t n;
    switch (t.pick(4))
    {
    case 0: n = t.range(1, 4); break;
    case 1: n = t.range(1, 8); break;
    case 2: n = t.range(1, 16); break;
    default: n = t.range(1, max_n); break;
    }
    if (n > max_n) { n = max_n; }
    std::vector<T> w(n);
    std::size_t const pattern = t.pick(7);
    char const* pname = "";
    switch (pattern)
    {
    case 0: pname = "uniform"; for (auto& x : w) { x = T(1) / T(n); } break;
    case 1: pname = "ones"; for (auto& x : w) { x = T(1); } break;
    case 2:
    {
        pname = "dyadic";
        unsigned const q = 1u + static_cast<unsigned>(t.range(0, 5));
        for (auto& x : w) { x = T(static_cast<long double>(t.range(0, 1u << q))) / T(1u << q); }
        break;
    }
    case 3: pname = "arbitrary"; for (auto& x : w) { x = gen_real<T>(t, 0u, 3); } break;
    case 4:
    {
        pname = "ratios";
        for (auto& x : w)
        {
            int const e = static_cast<int>(t.range(0, 24)) - 12;
            x = T(std::pow(10.0L, static_cast<long double>(e)) * (1.0L + static_cast<long double>(t.unit())));
        }
        break;
    }
    case 5: pname = "one-positive"; for (auto& x : w) { x = T(0); } w[t.pick(n)] = gen_real<T>(t, 0u, 3); break;
    default:
    {
        pname = "increasing";
        for (std::size_t i = 0; i != n; ++i) { w[i] = T(i + 1); }
        break;
    }
    }
    char const* zname = "";
    switch (t.pick(5))
    {
    case 0: break;
    case 1: { zname = "+zeros-front"; std::size_t k = t.range(1, n > 1 ? n - 1 : 1); for (std::size_t i = 0; i < k && i < n; ++i) { w[i] = T(0); } break; }
    case 2: { zname = "+zeros-end"; std::size_t k = t.range(1, n > 1 ? n - 1 : 1); for (std::size_t i = 0; i < k && i < n; ++i) { w[n - 1 - i] = T(0); } break; }
    case 3: { zname = "+zeros-middle"; std::size_t a = t.pick(n), b = t.pick(n); if (a > b) { std::swap(a, b); } for (std::size_t i = a; i <= b; ++i) { w[i] = T(0); } break; }
    default: { zname = "+zeros-mask"; std::uint64_t m = t.bits(); for (std::size_t i = 0; i != n; ++i) { if ((m >> (i % 64)) & 1u) { w[i] = T(0); } } break; }
    }
    char const* sname = "";
    switch (t.pick(4))
    {
    case 0: break;
    case 1: sname = "*7"; for (auto& x : w) { x *= T(7); } break;
    case 2: sname = "*2^-20"; for (auto& x : w) { x *= T(1.0 / 1048576.0); } break;
    default: sname = "*1e6"; for (auto& x : w) { x *= T(1e6); } break;
    }
    // no denormal-sized weights: a caller's weights are ordinary numbers
    for (auto& x : w) { if (x > T(0) && x < T(1e-30)) { x = T(1e-30); } }
    bool any = false;
    for (auto x : w) { if (x > T(0)) { any = true; } }
    if (!any) { w[t.pick(n)] = T(1); }
    if (how) { *how = std::string(pname) + zname + sname; }
    return w;
}

// SplitMix-based pattern stream for bulk data: value i of stream `seed` in [0,1)
inline double stream_unit(std::uint64_t seed, std::uint64_t index)
{
    return static_cast<double>(mix2(seed, index) >> 11) * (1.0 / 9007199254740992.0);
}

} // namespace vf

#endif
