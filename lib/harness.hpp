// Generic driver for one property translation unit.
//
// The TU defines `vf::Property const vf::property` (id, rule, run, optional enumerate / probe) and
// includes this header last (or defines VERIF_NO_MAIN and links harness separately). Modes:
//   --rc --cases N [--max-size S] --out stats.json --hashes h.bin --cur cur.tape --fail fail.tape
//       rapidcheck over choice tapes (seed etc. through RC_PARAMS, set by the python driver)
//   --enum --out ... --hashes ... --cur ... --fail ...   bounded enumeration supplied by the TU
//   --replay FILE        run one tape, print verdict, exit 0 (holds) / 1 (violated)
//   --probe SIG          run the TU's probe for a known finding, exit 0 (no longer fails) / 3 (fails)
//   --known a,b,c        signatures listed as `known:`; decoders route around these classes
// With -DVERIF_FUZZ the same TU becomes a libFuzzer target (bytes -> tape -> run -> trap on failure).
#ifndef VERIF_HARNESS_HPP
#define VERIF_HARNESS_HPP

#include "tape.hpp"

#include <algorithm>
#include <cstdint>
#include <cstdio>
#include <cstdlib>
#include <exception>
#include <functional>
#include <limits>
#include <map>
#include <set>
#include <sstream>
#include <string>
#include <unordered_set>
#include <vector>

#include <fcntl.h>
#include <unistd.h>

namespace vf
{

struct Failure
{
    std::string sig;
    std::string msg;
};

struct Ctx
{
    explicit Ctx(Tape& tape) : t(tape) {}

    Tape& t;
    std::ostringstream desc;
    bool nontrivial = false;
    std::vector<std::string> labels;
    double margin = std::numeric_limits<double>::infinity(); // min tolerance / observed error
    std::uint64_t sub = 0;                                    // inner evaluations of this case

    void label(std::string const& l) { labels.push_back(l); }
    void note_margin(long double tol, long double err)
    {
        if (err > 0)
        {
            double const m = static_cast<double>(tol / err);
            if (m < margin) { margin = m; }
        }
    }
    [[noreturn]] void fail(std::string const& sig, std::string const& msg) { throw Failure{sig, msg}; }
};

#define VF_CHECK(ctx, cond, sig, streamed)                                          \
    do {                                                                             \
        if (!(cond))                                                                 \
        {                                                                            \
            std::ostringstream vf_msg_;                                              \
            vf_msg_ << streamed << "  [" #cond "] at " << __FILE__ << ':' << __LINE__; \
            (ctx).fail((sig), vf_msg_.str());                                        \
        }                                                                            \
    } while (0)

class Enum;

struct Property
{
    char const* id;
    char const* rule;
    void (*run)(Ctx&);
    void (*enumerate)(Enum&); // may be null
    // probe for a known finding: returns true when the listed input still violates the property
    bool (*probe)(std::string const& sig, std::string& what); // may be null
};

extern Property const property;

struct Outcome
{
    bool ok = true;
    std::string sig, msg, desc;
};

struct Options
{
    std::set<std::string> known;
    bool thorough = false;
};

inline Options& options()
{
    static Options o;
    return o;
}

inline bool is_known(std::string const& sig) { return options().known.count(sig) != 0; }
inline bool thorough() { return options().thorough; }

inline std::uint64_t fnv1a(std::string const& s)
{
    std::uint64_t h = 1469598103934665603ull;
    for (unsigned char c : s) { h ^= c; h *= 1099511628211ull; }
    return h;
}

class Stats
{
public:
    std::uint64_t cases = 0, nontrivial = 0, failures = 0, sub = 0, excluded_known = 0;
    std::unordered_set<std::uint64_t> hashes;
    std::map<std::string, std::uint64_t> labels;
    std::vector<std::string> samples, trivial_samples;
    double min_margin = std::numeric_limits<double>::infinity();
    bool frozen = false; // set while rapidcheck shrinks: do not count shrink candidates

    void record(Ctx const& c, std::string const& desc)
    {
        if (frozen) { return; }
        ++cases;
        sub += c.sub;
        for (auto const& l : c.labels)
        {
            ++labels[l];
            if (l == "excluded_known") { ++excluded_known; }
        }
        if (c.margin < min_margin) { min_margin = c.margin; }
        if (c.nontrivial)
        {
            ++nontrivial;
            bool const fresh = hashes.insert(fnv1a(desc)).second;
            // keep a few samples spread over the run: the first three and then at powers of four
            if (fresh && (samples.size() < 3 || ((hashes.size() & (hashes.size() - 1)) == 0 && samples.size() < 8)))
            {
                samples.push_back(desc.size() > 1500 ? desc.substr(0, 1500) + " ..." : desc);
            }
        }
        else if (trivial_samples.size() < 1)
        {
            trivial_samples.push_back(desc.size() > 600 ? desc.substr(0, 600) + " ..." : desc);
        }
    }
};

inline Stats& stats()
{
    static Stats s;
    return s;
}

inline std::string json_escape(std::string const& s)
{
    std::string o;
    for (unsigned char c : s)
    {
        switch (c)
        {
        case '"': o += "\\\""; break;
        case '\\': o += "\\\\"; break;
        case '\n': o += "\\n"; break;
        case '\t': o += "\\t"; break;
        case '\r': o += "\\r"; break;
        default:
            if (c < 0x20 || c >= 0x7f) { char b[8]; std::snprintf(b, sizeof b, "\\u%04x", c); o += b; }
            else { o += static_cast<char>(c); }
        }
    }
    return o;
}

inline void write_stats(std::string const& out, std::string const& hashes_path, std::string const& mode)
{
    Stats const& s = stats();
    if (!hashes_path.empty())
    {
        std::FILE* h = std::fopen(hashes_path.c_str(), "wb");
        if (h)
        {
            for (auto v : s.hashes) { std::fwrite(&v, sizeof v, 1, h); }
            std::fclose(h);
        }
    }
    if (out.empty()) { return; }
    std::FILE* f = std::fopen(out.c_str(), "w");
    if (!f) { return; }
    std::fprintf(f, "{\"property\":\"%s\",\"mode\":\"%s\",\"cases\":%llu,\"nontrivial\":%llu,"
        "\"distinct_nontrivial\":%llu,\"failures\":%llu,\"sub_evaluations\":%llu,\"excluded_known\":%llu,",
        property.id, mode.c_str(), (unsigned long long) s.cases, (unsigned long long) s.nontrivial,
        (unsigned long long) s.hashes.size(), (unsigned long long) s.failures,
        (unsigned long long) s.sub, (unsigned long long) s.excluded_known);
    if (s.min_margin == std::numeric_limits<double>::infinity()) { std::fprintf(f, "\"min_margin\":null,"); }
    else { std::fprintf(f, "\"min_margin\":%.6g,", s.min_margin); }
    std::fprintf(f, "\"labels\":{");
    bool first = true;
    for (auto const& kv : s.labels)
    {
        std::fprintf(f, "%s\"%s\":%llu", first ? "" : ",", json_escape(kv.first).c_str(), (unsigned long long) kv.second);
        first = false;
    }
    std::fprintf(f, "},\"samples\":[");
    first = true;
    for (auto const& x : s.samples) { std::fprintf(f, "%s\"%s\"", first ? "" : ",", json_escape(x).c_str()); first = false; }
    std::fprintf(f, "],\"trivial_samples\":[");
    first = true;
    for (auto const& x : s.trivial_samples) { std::fprintf(f, "%s\"%s\"", first ? "" : ",", json_escape(x).c_str()); first = false; }
    std::fprintf(f, "]}\n");
    std::fclose(f);
}

struct RunFiles
{
    std::string out, hashes, cur, fail;
    int cur_fd = -1;
};

inline RunFiles& files()
{
    static RunFiles f;
    return f;
}

inline void note_current(std::vector<std::uint64_t> const& tape)
{
    RunFiles& rf = files();
    if (rf.cur.empty()) { return; }
    if (rf.cur_fd < 0) { rf.cur_fd = ::open(rf.cur.c_str(), O_WRONLY | O_CREAT | O_TRUNC, 0644); }
    if (rf.cur_fd < 0) { return; }
    std::string s = "tape: " + Tape(tape).hex() + "\n";
    if (::ftruncate(rf.cur_fd, 0) != 0) { return; }
    if (::pwrite(rf.cur_fd, s.data(), s.size(), 0) < 0) { return; }
}

inline std::vector<std::uint64_t>& last_failing_tape()
{
    static std::vector<std::uint64_t> t;
    return t;
}

inline Outcome& last_failing_outcome()
{
    static Outcome o;
    return o;
}

// run one tape through the property; never throws
inline Outcome execute(std::vector<std::uint64_t> const& tape_data)
{
    note_current(tape_data);
    Tape tape(tape_data);
    Ctx ctx(tape);
    Outcome o;
    try
    {
        property.run(ctx);
    }
    catch (Failure const& f)
    {
        o.ok = false;
        o.sig = f.sig;
        o.msg = f.msg;
    }
    catch (std::exception const& e)
    {
        o.ok = false;
        o.sig = "unexpected-exception";
        o.msg = std::string("unexpected exception: ") + e.what();
    }
    o.desc = ctx.desc.str();
    stats().record(ctx, o.desc);
    if (!o.ok)
    {
        if (!stats().frozen) { ++stats().failures; }
        last_failing_tape() = tape_data;
        last_failing_outcome() = o;
    }
    return o;
}

class Enum
{
public:
    // returns false when the case violated the property (enumeration should stop)
    bool exec(std::vector<std::uint64_t> const& tape)
    {
        Outcome const o = execute(tape);
        if (!o.ok) { failed_ = true; }
        return o.ok;
    }
    bool failed() const { return failed_; }
    bool exhaustive = false;       // TU sets this when it enumerated its stated sub-space completely
    std::string space;             // description of the enumerated sub-space

private:
    bool failed_ = false;
};

inline void save_failure(std::string const& path)
{
    if (path.empty()) { return; }
    Outcome const& o = last_failing_outcome();
    write_tape_file(path, last_failing_tape(), property.id, "sig=" + o.sig + " " + o.msg, o.desc);
}

} // namespace vf

#ifndef VERIF_NO_MAIN

#ifdef VERIF_FUZZ

#include <atomic>

namespace vf
{
inline void fuzz_atexit()
{
    char const* s = std::getenv("VERIF_FUZZ_STATS");
    if (s)
    {
        std::string const base = std::string(s) + "." + std::to_string(::getpid());
        write_stats(base + ".json", base + ".bin", "libfuzzer");
    }
}
}

extern "C" int LLVMFuzzerInitialize(int*, char***)
{
    if (char const* k = std::getenv("VERIF_KNOWN"))
    {
        std::istringstream in(k);
        std::string tok;
        while (std::getline(in, tok, ',')) { if (!tok.empty()) { vf::options().known.insert(tok); } }
    }
    vf::options().thorough = true;
    // construct the function-local statics first: exit handlers run in reverse order of registration, so the
    // statistics must exist (and be destroyed) after the handler that prints them
    (void) vf::stats();
    (void) vf::files();
    (void) vf::last_failing_tape();
    (void) vf::last_failing_outcome();
    std::atexit(vf::fuzz_atexit);
    return 0;
}

extern "C" int LLVMFuzzerTestOneInput(std::uint8_t const* data, std::size_t size)
{
    auto const tape = vf::tape_from_bytes(data, size);
    vf::Outcome const o = vf::execute(tape);
    if (!o.ok)
    {
        char const* dir = std::getenv("VERIF_FUZZ_FAILDIR");
        std::string const path = std::string(dir ? dir : ".") + "/fuzzfail-" + std::to_string(::getpid()) + ".tape";
        vf::save_failure(path);
        std::fprintf(stderr, "VERIF-FUZZ-FAIL %s sig=%s %s\n", path.c_str(), o.sig.c_str(), o.msg.c_str());
        vf::fuzz_atexit();
        __builtin_trap();
    }
    return 0;
}

#else // !VERIF_FUZZ

#include <rapidcheck.h>

namespace vf
{

inline rc::Gen<std::uint64_t> choice_gen()
{
    using rc::gen::inRange;
    return rc::gen::weightedOneOf<std::uint64_t>({
        {5, inRange<std::uint64_t>(0, 4)},
        {4, inRange<std::uint64_t>(0, 64)},
        {2, inRange<std::uint64_t>(0, 65536)},
        {5, rc::gen::resize(100, rc::gen::arbitrary<std::uint64_t>())},
        {1, rc::gen::element<std::uint64_t>(~0ull, 1ull << 63, (1ull << 63) - 1, 1ull << 32, (1ull << 32) - 1,
                1ull << 52, 1ull << 53, 0x3ff0000000000000ull, 0x7fefffffffffffffull, 1ull)},
    });
}

inline rc::Gen<std::vector<std::uint64_t>> tape_gen()
{
    return rc::gen::withSize([](int size) {
        return rc::gen::resize(24 + 4 * size, rc::gen::container<std::vector<std::uint64_t>>(choice_gen()));
    });
}

inline int main_impl(int argc, char** argv)
{
    std::string mode, replay, probe;
    RunFiles& rf = files();
    for (int i = 1; i < argc; ++i)
    {
        std::string const a = argv[i];
        auto val = [&]() -> std::string { return (i + 1 < argc) ? argv[++i] : std::string(); };
        if (a == "--rc" || a == "--enum") { mode = a; }
        else if (a == "--replay") { mode = a; replay = val(); }
        else if (a == "--probe") { mode = a; probe = val(); }
        else if (a == "--out") { rf.out = val(); }
        else if (a == "--hashes") { rf.hashes = val(); }
        else if (a == "--cur") { rf.cur = val(); }
        else if (a == "--fail") { rf.fail = val(); }
        else if (a == "--thorough") { options().thorough = true; }
        else if (a == "--known")
        {
            std::istringstream in(val());
            std::string tok;
            while (std::getline(in, tok, ',')) { if (!tok.empty()) { options().known.insert(tok); } }
        }
        else if (a == "--cases") { val(); } // informational; the count comes through RC_PARAMS
        else { std::fprintf(stderr, "unknown argument %s\n", a.c_str()); return 2; }
    }

    if (mode == "--replay")
    {
        std::vector<std::uint64_t> tape;
        if (!read_tape_file(replay, tape)) { std::fprintf(stderr, "cannot read tape %s\n", replay.c_str()); return 2; }
        Outcome const o = execute(tape);
        std::printf("case: %s\n", o.desc.c_str());
        if (o.ok) { std::printf("REPLAY-HOLDS property=%s\n", property.id); return 0; }
        std::printf("REPLAY-VIOLATED property=%s sig=%s %s\n", property.id, o.sig.c_str(), o.msg.c_str());
        if (!rf.fail.empty()) { save_failure(rf.fail); }
        return 1;
    }

    if (mode == "--probe")
    {
        if (!property.probe) { std::printf("PROBE-UNSUPPORTED\n"); return 2; }
        std::string what;
        bool const still = property.probe(probe, what);
        std::printf("%s %s\n", still ? "PROBE-FAILS" : "PROBE-PASSES", what.c_str());
        return still ? 3 : 0;
    }

    if (mode == "--enum")
    {
        if (!property.enumerate) { write_stats(rf.out, rf.hashes, "enum"); return 0; }
        Enum e;
        property.enumerate(e);
        write_stats(rf.out, rf.hashes, e.exhaustive ? "enum-exhaustive" : "enum");
        if (e.failed())
        {
            save_failure(rf.fail);
            std::printf("FAIL property=%s sig=%s %s\n", property.id, last_failing_outcome().sig.c_str(),
                last_failing_outcome().msg.c_str());
            return 1;
        }
        std::printf("enum ok: %s (%llu cases)\n", e.space.c_str(), (unsigned long long) stats().cases);
        return 0;
    }

    if (mode == "--rc")
    {
        bool seen_failure = false;
        std::size_t shrink_runs = 0;
        bool const ok = rc::check(std::string("property ") + property.id, [&]() {
            auto const tape = *tape_gen();
            // bounded shrinking: after the budget every further shrink candidate counts as passing, which ends
            // rapidcheck's search at the smallest failing tape found so far
            if (seen_failure && ++shrink_runs > 1500) { return; }
            Outcome const o = execute(tape);
            if (!o.ok)
            {
                // everything rapidcheck runs from now on is a shrink candidate
                seen_failure = true;
                stats().frozen = true;
                RC_FAIL(o.sig + ": " + o.msg);
            }
        });
        write_stats(rf.out, rf.hashes, "rapidcheck");
        if (!ok || seen_failure)
        {
            save_failure(rf.fail);
            std::printf("FAIL property=%s sig=%s %s\n", property.id, last_failing_outcome().sig.c_str(),
                last_failing_outcome().msg.c_str());
            return 1;
        }
        return 0;
    }

    std::fprintf(stderr, "usage: %s --rc|--enum|--replay F|--probe SIG ...\n", argv[0]);
    return 2;
}

} // namespace vf

int main(int argc, char** argv)
{
    return vf::main_impl(argc, argv);
}

#endif // VERIF_FUZZ
#endif // VERIF_NO_MAIN

#endif
