// Long double model of one VEGAS refinement step of one dimension, judged in F-space (shared by C07 and, for the
// "state derived from the previous one" clause, by C19). Included into an anonymous namespace of one translation unit.
#ifndef VERIF_VEGAS_MODEL_HPP
#define VERIF_VEGAS_MODEL_HPP

#ifndef VEGAS_MODEL_PROPERTY
#define VEGAS_MODEL_PROPERTY "C07"
#endif

#include "hep/mc/vegas_pdf.hpp"

#include "harness.hpp"

namespace
{

template <typename T>
std::string show_grid(hep::vegas_pdf<T> const& p, std::size_t maxb = 20)
{
    std::ostringstream o;
    o << "grid{d=" << p.dimensions() << ",bins=" << p.bins() << ":";
    for (std::size_t i = 0; i != p.dimensions(); ++i)
    {
        o << '[';
        for (std::size_t b = 0; b <= p.bins(); ++b)
        {
            if (b == maxb) { o << "..."; break; }
            o << (b ? "," : "") << vf::show(p.bin_left(i, b));
        }
        o << ']';
    }
    o << '}';
    return o.str();
}

struct DimStats
{
    bool zero_info = false, skipped_model = false, judged = false;
};

// one refinement step of one dimension against the model
template <typename T>
DimStats check_dimension(vf::Ctx& c, hep::vegas_pdf<T> const& oldp, hep::vegas_pdf<T> const& newp, std::size_t i, T alpha,
    std::vector<T> const& data)
{
    using LD = long double;
    DimStats st;
    std::size_t const B = oldp.bins();
    std::vector<LD> d(B), s(B);
    for (std::size_t b = 0; b != B; ++b) { d[b] = data[i * B + b]; }
    {
        // only ratios of the data matter: for T = long double the model has no wider type to sum in, so data near the
        // largest finite number are scaled by a power of two first (exact)
        LD mx = 0;
        for (auto v : d) { mx = std::max(mx, v); }
        if (mx > std::numeric_limits<LD>::max() / (8 * static_cast<LD>(B)))
        {
            int e = 0;
            (void) std::frexp(mx, &e);
            for (auto& v : d) { v = std::ldexp(v, -e); }
        }
    }
    s[0] = (d[0] + d[1]) / 2;
    for (std::size_t b = 1; b + 1 < B; ++b) { s[b] = (d[b - 1] + d[b] + d[b + 1]) / 3; }
    s[B - 1] = (d[B - 2] + d[B - 1]) / 2;
    LD norm = 0;
    for (auto v : s) { norm += v; }
    if (norm == 0)
    {
        st.zero_info = true;
        for (std::size_t b = 0; b <= B; ++b)
        {
            VF_CHECK(c, vf::same_bits(oldp.bin_left(i, b), newp.bin_left(i, b)), VEGAS_MODEL_PROPERTY ":zero-data-moves-grid", "dimension " << i
                << " has only zero data but boundary " << b << " moved from " << vf::show(oldp.bin_left(i, b)) << " to "
                << vf::show(newp.bin_left(i, b)));
        }
        return st;
    }
    // classes judged by the invariants only
    LD const tiny = std::numeric_limits<T>::min();
    // denormal-scale data: the smoothed values carry an absolute error of half a denorm_min each, i.e. only a few bits;
    // the model is then compared coarsely (5 % of the total importance) and only if every smoothed value still has at
    // least ~6 bits - enough to tell a refined grid from one that was not refined at all
    bool coarse = false;
    if (norm < tiny * std::ldexp(1.0L, std::numeric_limits<T>::digits))
    {
        LD const dmin = std::numeric_limits<T>::denorm_min();
        for (auto v : s) { if (v != 0 && v < 64 * dmin) { st.skipped_model = true; return st; } }
        coarse = true;
    }
    std::vector<LD> imp(B, 0.0L);
    LD sum = 0, maximp = 0;
    for (std::size_t b = 0; b != B; ++b)
    {
        if (s[b] == 0) { continue; }
        LD const r = s[b] / norm;
        // a ratio or smoothed value in the subnormal range of T has few bits, but the importance depends on it through its
        // logarithm only: compare coarsely (below) instead of not at all; values that T flushes to zero are not judged
        if (r < tiny * 4 || s[b] < tiny * 4)
        {
            // (checked for every bin: one that T flushes to zero next to one it keeps must not slip through)
            if (r < static_cast<LD>(std::numeric_limits<T>::denorm_min()) * 64 || s[b] < static_cast<LD>(std::numeric_limits<T>::denorm_min()) * 64) { st.skipped_model = true; return st; }
            coarse = true;
        }
        imp[b] = std::pow((r - 1) / std::log(r), static_cast<LD>(alpha));
        sum += imp[b];
        maximp = std::max(maximp, imp[b]);
    }
    LD const avg = sum / B;
    LD const eps = vf::eps<T>();
    for (std::size_t k = 1; k != B; ++k)
    {
        LD const x = newp.bin_left(i, k);
        LD F = 0;
        bool bad_class = false;
        // bins containing x (closed) and their direct neighbours: the library places a boundary from the
        // bin on either side, so its position carries the absolute resolution of the widest of them and
        // the error in F is that resolution times the largest importance density next to x
        std::size_t cmin = B, cmax = 0;
        for (std::size_t b = 0; b != B; ++b)
        {
            LD const l = oldp.bin_left(i, b), r = oldp.bin_left(i, b + 1), w = r - l;
            if (l <= x && x <= r) { cmin = std::min(cmin, b); cmax = std::max(cmax, b); }
            if (r <= x) { F += imp[b]; }
            else if (l <= x && w > 0) { F += imp[b] * (x - l) / w; }
        }
        LD maxdens = 0, scale = 0;
        if (cmin != B)
        {
            std::size_t const lo = cmin > 0 ? cmin - 1 : 0, hi = std::min(B - 1, cmax + 1);
            for (std::size_t b = lo; b <= hi; ++b)
            {
                LD const l = oldp.bin_left(i, b), r = oldp.bin_left(i, b + 1), w = r - l;
                if (imp[b] > 0 && w <= 0) { bad_class = true; break; } // heavy zero-width bin next to the boundary
                if (w > 0) { maxdens = std::max(maxdens, imp[b] / w); }
                scale = std::max(scale, std::fabs(x) + std::fabs(l) + std::fabs(r));
            }
        }
        if (bad_class) { st.skipped_model = true; continue; }
        LD const cond = maxdens * scale;
        LD const tol = coarse ? 0.05L * sum + 8 * eps * cond : 8 * eps * (B * sum + cond);
        LD const err = std::fabs(F - k * avg);
        if (!coarse) { c.note_margin(tol, err); }
        st.judged = true;
        VF_CHECK(c, err <= tol, VEGAS_MODEL_PROPERTY ":share", "dimension " << i << ": the first " << k << " refined bins hold importance "
            << vf::show<LD>(F) << " instead of " << k << " x " << vf::show<LD>(avg) << " (new boundary " << vf::show(newp.bin_left(i, k))
            << ", tolerance " << vf::show<LD>(tol) << "; old grid " << show_grid(oldp, 12) << " data "
            << vf::show(std::vector<T>(data.begin() + i * B, data.begin() + (i + 1) * B), 12) << " new grid " << show_grid(newp, 12) << ")");
    }
    return st;
}

} // namespace

#endif
