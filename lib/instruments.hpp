// Instruments that replace the template parameters of hep-mc by objects the generator owns.
#ifndef VERIF_INSTRUMENTS_HPP
#define VERIF_INSTRUMENTS_HPP

#include "tape.hpp"

#include <cmath>
#include <cstdint>
#include <istream>
#include <limits>
#include <memory>
#include <ostream>
#include <random>
#include <stdexcept>
#include <string>
#include <vector>

namespace vf
{

// URBG with range [0, 2^64) that plays back a script of raw outputs and then continues with a
// SplitMix64 stream. Copyable; copies share nothing (the script is copied by shared pointer,
// the cursor by value), so "the generator stored in a checkpoint" behaves like a real engine.
class script_engine
{
public:
    using result_type = std::uint64_t;

    script_engine() : script_(std::make_shared<std::vector<std::uint64_t>>()) {}
    explicit script_engine(std::vector<std::uint64_t> script, std::uint64_t tail_seed = 0)
        : script_(std::make_shared<std::vector<std::uint64_t>>(std::move(script))), tail_(tail_seed)
    {
    }

    static constexpr result_type min() { return 0; }
    static constexpr result_type max() { return ~static_cast<result_type>(0); }

    result_type operator()()
    {
        std::uint64_t const i = pos_++;
        if (i < script_->size()) { return (*script_)[i]; }
        return splitmix64(tail_ ^ (i * 0x9E3779B97F4A7C15ull));
    }

    void discard(unsigned long long n) { pos_ += n; }
    std::uint64_t position() const { return pos_; }

    friend bool operator==(script_engine const& a, script_engine const& b)
    {
        return a.pos_ == b.pos_ && a.tail_ == b.tail_ && *a.script_ == *b.script_;
    }
    friend bool operator!=(script_engine const& a, script_engine const& b) { return !(a == b); }

    // the textual form carries the whole script, so that a checkpoint written to text can be resumed
    friend std::ostream& operator<<(std::ostream& o, script_engine const& e)
    {
        o << e.pos_ << ' ' << e.tail_ << ' ' << e.script_->size();
        for (auto v : *e.script_) { o << ' ' << v; }
        return o;
    }
    friend std::istream& operator>>(std::istream& i, script_engine& e)
    {
        std::size_t n = 0;
        i >> e.pos_ >> e.tail_ >> n;
        auto s = std::make_shared<std::vector<std::uint64_t>>(n);
        for (auto& v : *s) { i >> v; }
        e.script_ = s;
        return i;
    }

private:
    std::shared_ptr<std::vector<std::uint64_t>> script_;
    std::uint64_t tail_ = 0;
    std::uint64_t pos_ = 0;
};

// wrapper that counts raw draws of any engine through a shared counter (copies share the counter)
template <typename E>
class counting_engine
{
public:
    using result_type = typename E::result_type;

    counting_engine() : count_(std::make_shared<std::uint64_t>(0)) {}
    explicit counting_engine(E const& e) : e_(e), count_(std::make_shared<std::uint64_t>(0)) {}

    static constexpr result_type min() { return E::min(); }
    static constexpr result_type max() { return E::max(); }

    result_type operator()() { ++*count_; return e_(); }
    void discard(unsigned long long n) { e_.discard(n); }

    std::uint64_t count() const { return *count_; }
    E const& base() const { return e_; }

    friend bool operator==(counting_engine const& a, counting_engine const& b) { return a.e_ == b.e_; }
    friend bool operator!=(counting_engine const& a, counting_engine const& b) { return !(a == b); }
    friend std::ostream& operator<<(std::ostream& o, counting_engine const& e) { return o << e.e_; }
    friend std::istream& operator>>(std::istream& i, counting_engine& e) { return i >> e.e_; }

private:
    E e_;
    std::shared_ptr<std::uint64_t> count_;
};


// synthetic engine with an arbitrary output range [Min, Max] (Max - Min + 1 may be any number up to 2^64)
template <std::uint64_t Min, std::uint64_t Max>
class range_engine
{
public:
    using result_type = std::uint64_t;

    explicit range_engine(std::uint64_t seed = 1) : state_(seed) {}

    static constexpr result_type min() { return Min; }
    static constexpr result_type max() { return Max; }

    result_type operator()()
    {
        state_ = state_ * 6364136223846793005ull + 1442695040888963407ull;
        std::uint64_t const r = splitmix64(state_);
        return (Max - Min == ~0ull) ? r : Min + r % (Max - Min + 1);
    }

    void discard(unsigned long long n) { for (unsigned long long i = 0; i != n; ++i) { (void) (*this)(); } }

    friend bool operator==(range_engine const& a, range_engine const& b) { return a.state_ == b.state_; }
    friend bool operator!=(range_engine const& a, range_engine const& b) { return !(a == b); }
    friend std::ostream& operator<<(std::ostream& o, range_engine const& e) { return o << e.state_; }
    friend std::istream& operator>>(std::istream& i, range_engine& e) { return i >> e.state_; }

private:
    std::uint64_t state_;
};


// wrapper that refuses absurd discards: an MPI rank that is told to skip (almost) 2^64 numbers never
// returns in a real run; here that is turned into an exception (a logical, not a timed, verdict)
struct discard_limit
{
    static unsigned long long& value() { static unsigned long long v = ~0ull; return v; }
};

template <typename E>
class guard_engine
{
public:
    using result_type = typename E::result_type;

    guard_engine() = default;
    explicit guard_engine(E const& e) : e_(e) {}
    explicit guard_engine(result_type seed) : e_(seed) {}

    static constexpr result_type min() { return E::min(); }
    static constexpr result_type max() { return E::max(); }

    result_type operator()() { return e_(); }
    void discard(unsigned long long n)
    {
        if (n > discard_limit::value()) { throw std::runtime_error("generator.discard(" + std::to_string(n) + "): far beyond everything the run can consume"); }
        e_.discard(n);
    }
    E const& base() const { return e_; }

    friend bool operator==(guard_engine const& a, guard_engine const& b) { return a.e_ == b.e_; }
    friend bool operator!=(guard_engine const& a, guard_engine const& b) { return !(a == b); }
    friend std::ostream& operator<<(std::ostream& o, guard_engine const& e) { return o << e.e_; }
    friend std::istream& operator>>(std::istream& i, guard_engine& e) { return i >> e.e_; }

private:
    E e_;
};

// how many raw draws one generate_canonical<T, digits> costs on engine type E (measured, not derived)
template <typename T, typename E>
inline std::size_t draws_per_canonical()
{
    struct probe
    {
        using result_type = typename E::result_type;
        static constexpr result_type min() { return E::min(); }
        static constexpr result_type max() { return E::max(); }
        result_type operator()() { ++n; return E::min(); }
        std::size_t n = 0;
    } p;
    (void) std::generate_canonical<T, std::numeric_limits<T>::digits>(p);
    return p.n;
}

// append the raw outputs that make generate_canonical<T, digits>(script_engine) return exactly
// the value u in [0,1) (u must have at most 64 significant bits above 2^-64, which every T value
// >= 2^-64 has; smaller u are flushed to the lattice)
template <typename T>
inline void push_canonical(std::vector<std::uint64_t>& script, long double u)
{
    static std::size_t const k = draws_per_canonical<T, script_engine>();
    std::uint64_t raw;
    long double const scaled = std::ldexp(u, 64);
    if (scaled >= 18446744073709551615.0L) { raw = ~0ull; }
    else if (scaled <= 0.0L) { raw = 0; }
    else { raw = static_cast<std::uint64_t>(scaled); }
    // with k draws the value is (d_0 + d_1 2^64 + ...)/2^(64k): put the payload in the last draw
    for (std::size_t i = 0; i + 1 < k; ++i) { script.push_back(0); }
    script.push_back(raw);
}

// the canonical value the library will see for a given raw payload (same arithmetic as libstdc++)
template <typename T>
inline T canonical_of_raw(std::uint64_t raw)
{
    script_engine e(std::vector<std::uint64_t>{});
    std::vector<std::uint64_t> s;
    static std::size_t const k = draws_per_canonical<T, script_engine>();
    for (std::size_t i = 0; i + 1 < k; ++i) { s.push_back(0); }
    s.push_back(raw);
    script_engine g(s);
    return std::generate_canonical<T, std::numeric_limits<T>::digits>(g);
}

} // namespace vf

#endif
