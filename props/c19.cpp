// C19 - each iteration samples with the state derived from the previous one.
// Domain: VEGAS and multi-channel x numeric type x 1..6 iterations x default / user grids, default /
// user weights (unnormalised, with zeros) x alpha, beta, minimum weight x scripted engine (every
// canonical number is known to the oracle) x execution mode (uninterrupted, resumed from text at
// generated boundaries; the MPI mode lives in the C04 harness).
// Oracle (history invariant): results[0] records the user state (through the documented
// normalisation) or the default; results[k+1] records exactly refine(results[k]) under the
// checkpoint's parameters; and the recorded state is the one sampled with: every logged point, bin,
// channel and weight equals an independent model of the recorded state at the known random numbers.
#include "hep/mc.hpp"

#include "../lib/gen.hpp"
#include "../lib/instruments.hpp"
#include "../lib/pwc.hpp"
#include "../lib/harness.hpp"
#define VEGAS_MODEL_PROPERTY "C19"
#include "../lib/vegas_model.hpp"

namespace
{

template <typename T>
struct Rec
{
    std::vector<T> point, coords;
    std::vector<std::size_t> bins;
    std::size_t channel = 0;
    T weight = T(0);
};

template <typename T>
struct Log
{
    std::vector<Rec<T>> recs;
    std::vector<std::size_t> cuts;
};

template <typename T>
struct Fn
{
    Log<T>* log;
    int family;

    static void extra(hep::vegas_point<T> const& p, Rec<T>& r) { r.bins = p.bin(); }
    static void extra(hep::multi_channel_point<T> const& p, Rec<T>& r) { r.channel = p.channel(); r.coords = p.coordinates(); }

    template <typename P>
    T operator()(P const& p) const
    {
        Rec<T> r;
        r.point = p.point();
        r.weight = p.weight();
        extra(p, r);
        T const x0 = (r.coords.empty() ? r.point : r.coords)[0];
        log->recs.push_back(r);
        switch (family)
        {
        case 0: return T(1) + T(4) * x0 * x0;
        case 1: return (x0 < T(0.4)) ? T(0.1) : T(3);
        case 2: return T(1) / (T(0.02) + (x0 - T(0.7)) * (x0 - T(0.7)));
        case 3: return (x0 > T(0.9)) ? std::numeric_limits<T>::quiet_NaN() : T(1) + T(3) * x0; // non-finite in a region
        default: return T(1);
        }
    }
};

template <typename T>
std::vector<std::uint64_t> make_script(std::uint64_t seed, std::size_t numbers, std::vector<T>& canon)
{
    std::vector<std::uint64_t> script;
    canon.clear();
    for (std::size_t i = 0; i != numbers; ++i)
    {
        // generic values; the value the library will see is read back through the same std::generate_canonical
        vf::push_canonical<T>(script, static_cast<long double>(vf::stream_unit(seed, i)));
    }
    vf::script_engine probe(script);
    for (std::size_t i = 0; i != numbers; ++i) { canon.push_back(std::generate_canonical<T, std::numeric_limits<T>::digits>(probe)); }
    return script;
}

template <typename Chk, typename Load>
Chk through_text(Chk const& chk, Load load)
{
    std::ostringstream o;
    chk.serialize(o);
    std::istringstream in(o.str());
    return load(in);
}

template <typename T>
void run_vegas(vf::Ctx& c)
{
    vf::Tape& t = c.t;
    std::size_t const dims = 1 + t.pick(3), bins = 2 + t.pick(24);
    std::size_t const iters = 1 + t.pick(6);
    std::vector<std::size_t> calls;
    std::size_t total = 0;
    for (std::size_t k = 0; k != iters; ++k) { calls.push_back(t.pick(6) == 0 ? t.range(0, 2) : 10 + t.range(0, 150)); total += calls.back(); }
    T alpha;
    switch (t.pick(5)) { case 0: alpha = T(1.5); break; case 1: alpha = T(0); break; case 2: alpha = T(0.5); break; case 3: alpha = T(3); break; default: alpha = static_cast<T>(3 * t.unit()); break; }
    bool const user = t.flag();
    hep::vegas_pdf<T> start(dims, bins);
    if (user)
    {
        for (std::size_t d = 0; d != dims; ++d)
        {
            std::vector<T> e;
            for (std::size_t b = 1; b < bins; ++b) { e.push_back(static_cast<T>(t.unit())); }
            std::sort(e.begin(), e.end());
            for (std::size_t b = 1; b < bins; ++b) { start.set_bin_left(d, b, e[b - 1]); }
        }
    }
    int const family = static_cast<int>(t.pick(5));
    std::uint64_t const sseed = t.stream_seed();
    std::uint64_t const mask = t.next(); // interruption boundaries
    bool const resumed = t.flag();
    std::vector<T> canon;
    std::vector<std::uint64_t> const script = make_script<T>(sseed, total * dims, canon);
    Log<T> log;
    Fn<T> fn{&log, family};
    hep::integrand<T, Fn<T>, false> ig(fn, dims, std::vector<hep::distribution_parameters<T>>());
    using E = vf::script_engine;
    auto chk = user ? hep::make_vegas_chkpt<T, E>(start, alpha, E(script)) : hep::make_vegas_chkpt<T, E>(bins, alpha, E(script));
    using Chk = decltype(chk);
    auto cut = [&log](Chk const&) { log.cuts.push_back(log.recs.size()); return true; };
    c.desc << vf::type_name<T>::get() << " VEGAS d=" << dims << " bins=" << bins << " alpha=" << vf::show(alpha) << (user ? " usergrid" : " default") << " calls="
           << vf::show(calls) << " family=" << family << (resumed ? " resumed-mask=" + std::to_string(mask % 64) : std::string(" uninterrupted")) << " stream=" << sseed % 100000;
    if (!resumed) { chk = hep::vegas(ig, calls, chk, cut); }
    else
    {
        // the start checkpoint itself may have been written out before the first iteration
        if (mask >> 63) { chk.dimensions(dims); chk = through_text(chk, [](std::istream& in) { return hep::make_vegas_chkpt<T, E>(in); }); }
        std::size_t pos = 0;
        while (pos < iters)
        {
            std::size_t end = pos + 1;
            while (end < iters && !((mask >> (end - 1)) & 1u)) { ++end; }
            chk = hep::vegas(ig, std::vector<std::size_t>(calls.begin() + pos, calls.begin() + end), chk, cut);
            pos = end;
            if (pos < iters) { chk = through_text(chk, [](std::istream& in) { return hep::make_vegas_chkpt<T, E>(in); }); }
        }
    }
    VF_CHECK(c, chk.results().size() == iters && log.cuts.size() == iters, "C19:iterations", "performed " << chk.results().size() << " of " << iters);
    auto same_pdf = [](hep::vegas_pdf<T> const& a, hep::vegas_pdf<T> const& b) {
        if (a.bins() != b.bins() || a.dimensions() != b.dimensions()) { return false; }
        for (std::size_t d = 0; d != a.dimensions(); ++d) { for (std::size_t k = 0; k <= a.bins(); ++k) { if (!vf::same_bits(a.bin_left(d, k), b.bin_left(d, k))) { return false; } } }
        return true;
    };
    // the first iteration records the user grid / the uniform default
    VF_CHECK(c, same_pdf(chk.results()[0].pdf(), start), "C19:first-state", "result 0 does not record the " << (user ? "user supplied" : "uniform default") << " grid");
    bool changed = false;
    std::size_t b0 = 0, ci = 0;
    for (std::size_t k = 0; k != iters; ++k)
    {
        auto const& res = chk.results()[k];
        hep::vegas_pdf<T> const& grid = res.pdf();
        if (k + 1 < iters)
        {
            hep::vegas_pdf<T> const expect = hep::vegas_refine_pdf(grid, alpha, res.adjustment_data());
            VF_CHECK(c, same_pdf(chk.results()[k + 1].pdf(), expect), "C19:next-state", "result " << (k + 1) << " does not record the refinement of result " << k
                << " under alpha = " << vf::show(alpha));
            if (!same_pdf(expect, grid)) { changed = true; }
            // independent statement: the long double model of the documented refinement (equal shares of the importance)
            for (std::size_t d = 0; d != grid.dimensions(); ++d) { (void) check_dimension<T>(c, grid, chk.results()[k + 1].pdf(), d, alpha, res.adjustment_data()); }
        }
        // the recorded grid is the grid sampled with
        for (std::size_t i = b0; i != log.cuts[k]; ++i)
        {
            Rec<T> const& r = log.recs[i];
            long double wref = 1;
            for (std::size_t d = 0; d != dims; ++d)
            {
                long double const u = canon[ci++];
                long double const pos = u * bins;
                std::size_t const bin = r.bins[d];
                VF_CHECK(c, bin < bins, "C19:bin-range", "bin " << bin);
                long double const slack = 4 * vf::eps<T>() * (pos + 1);
                VF_CHECK(c, pos >= bin - slack && pos <= bin + 1 + slack, "C19:sampled-bin", "iteration " << k << ": random number " << vf::show<long double>(u)
                    << " belongs to bin " << static_cast<std::size_t>(pos) << " but the point reports bin " << bin);
                long double const l = grid.bin_left(d, bin), w = static_cast<long double>(grid.bin_left(d, bin + 1)) - l;
                long double const xref = l + (pos - bin) * w;
                long double const tol = 8 * vf::eps<T>() * (std::fabs(l) + std::fabs(w) * (pos + 1)) + 4 * vf::eps<T>() * bins * w;
                VF_CHECK(c, std::fabs(static_cast<long double>(r.point[d]) - xref) <= tol, "C19:sampled-point", "iteration " << k << " dimension " << d << ": point "
                    << vf::show(r.point[d]) << " is not the inverse CDF of the recorded grid at u = " << vf::show<long double>(u) << " (" << vf::show<long double>(xref) << ")");
                wref *= bins * w;
            }
            VF_CHECK(c, std::fabs(static_cast<long double>(r.weight) - wref) <= 4 * dims * vf::eps<T>() * wref + std::numeric_limits<T>::min(), "C19:sampled-weight",
                "iteration " << k << ": weight " << vf::show(r.weight) << " is not prod(bins x width) = " << vf::show<long double>(wref) << " of the recorded grid");
            ++c.sub;
        }
        b0 = log.cuts[k];
    }
    VF_CHECK(c, same_pdf(chk.pdf(), hep::vegas_refine_pdf(chk.results().back().pdf(), alpha, chk.results().back().adjustment_data())), "C19:next-state",
        "chkpt.pdf() is not the refinement of the last result");
    if (user) { c.label("user-state"); }
    if (resumed) { c.label("resumed"); }
    if (resumed && (mask >> 63)) { c.label("start-checkpoint-through-text"); }
    if (family == 3) { c.label("non-finite-region"); }
    c.label("VEGAS");
    c.nontrivial = (iters >= 2 && changed) || user;
}

template <typename T>
void run_multi(vf::Ctx& c)
{
    vf::Tape& t = c.t;
    std::size_t const channels = 1 + t.pick(6);
    vf::PwcFamily<T> fam = vf::gen_pwc<T>(t, 3, channels, 4);
    std::size_t const dims = fam.dims;
    std::size_t const iters = 1 + t.pick(6);
    std::vector<std::size_t> calls;
    std::size_t total = 0;
    for (std::size_t k = 0; k != iters; ++k) { calls.push_back(t.pick(6) == 0 ? t.range(0, 2) : 10 + t.range(0, 150)); total += calls.back(); }
    T beta, minw;
    switch (t.pick(5)) { case 0: beta = T(0.25); break; case 1: beta = T(1); break; case 2: beta = T(0.5); break; case 3: beta = T(0); break; // (beta 0: the weights never adapt)
                         default: beta = static_cast<T>(0.05 + 0.95 * t.unit()); break; }
    if (beta == T(0)) { c.label("beta-zero"); }
    switch (t.pick(4)) { case 0: minw = T(0); break; case 1: minw = T(0.5) / T(channels); break; case 2: minw = T(0.01); break; default: minw = static_cast<T>(0.9 * t.unit() / channels); break; }
    if (!(minw < T(1) / T(channels))) { minw = T(0); }
    bool const user = t.flag();
    std::vector<T> w0;
    if (user) { w0 = vf::gen_weights<T>(t, channels); w0.resize(channels, T(1)); }
    int const family = static_cast<int>(t.pick(5));
    std::uint64_t const sseed = t.stream_seed();
    std::uint64_t const mask = t.next();
    bool const resumed = t.flag();
    std::vector<T> canon;
    std::vector<std::uint64_t> const script = make_script<T>(sseed, total * (dims + 1), canon);
    Log<T> log;
    Fn<T> fn{&log, family};
    vf::PwcMap<T> map{&fam, nullptr, nullptr};
    hep::multi_channel_integrand<T, Fn<T>, vf::PwcMap<T>, false> ig(fn, dims, map, fam.map_dims, channels, std::vector<hep::distribution_parameters<T>>());
    using E = vf::script_engine;
    auto chk = user ? hep::make_multi_channel_chkpt<T, E>(w0, minw, beta, E(script)) : hep::make_multi_channel_chkpt<T, E>(minw, beta, E(script));
    using Chk = decltype(chk);
    auto cut = [&log](Chk const&) { log.cuts.push_back(log.recs.size()); return true; };
    c.desc << vf::type_name<T>::get() << " MULTI " << fam.describe() << " beta=" << vf::show(beta) << " min=" << vf::show(minw) << (user ? " weights=" + vf::show(w0) : std::string(" default"))
           << " calls=" << vf::show(calls) << " family=" << family << (resumed ? " resumed-mask=" + std::to_string(mask % 64) : std::string(" uninterrupted")) << " stream=" << sseed % 100000;
    if (!resumed) { chk = hep::multi_channel(ig, calls, chk, cut); }
    else
    {
        // the start checkpoint itself may have been written out before the first iteration
        if (mask >> 63) { chk.channels(channels); chk = through_text(chk, [](std::istream& in) { return hep::make_multi_channel_chkpt<T, E>(in); }); }
        std::size_t pos = 0;
        while (pos < iters)
        {
            std::size_t end = pos + 1;
            while (end < iters && !((mask >> (end - 1)) & 1u)) { ++end; }
            chk = hep::multi_channel(ig, std::vector<std::size_t>(calls.begin() + pos, calls.begin() + end), chk, cut);
            pos = end;
            if (pos < iters) { chk = through_text(chk, [](std::istream& in) { return hep::make_multi_channel_chkpt<T, E>(in); }); }
        }
    }
    VF_CHECK(c, chk.results().size() == iters && log.cuts.size() == iters, "C19:iterations", "performed " << chk.results().size() << " of " << iters);
    // first state: the user's weights through the documented normalisation, or the uniform default
    std::vector<T> const first = user ? hep::multi_channel_refine_weights(w0, std::vector<T>(channels, T(1)), minw, beta) : std::vector<T>(channels, T(1) / T(channels));
    VF_CHECK(c, vf::same_bits(chk.results()[0].channel_weights(), first), "C19:first-state", "result 0 records weights " << vf::show(chk.results()[0].channel_weights())
        << ", expected " << vf::show(first) << (user ? " (user weights normalised)" : " (uniform default)"));
    if (user)
    {
        // independent statement of the normalisation for the unclamped case: proportional to the user's weights, zeros stay zero
        long double tot = 0;
        for (auto x : w0) { tot += x; }
        bool clamped = false;
        for (auto x : w0) { if (x > T(0) && static_cast<long double>(x) / tot < static_cast<long double>(minw)) { clamped = true; } }
        for (std::size_t j = 0; j != channels && !clamped; ++j)
        {
            long double const ref = static_cast<long double>(w0[j]) / tot;
            VF_CHECK(c, std::fabs(static_cast<long double>(first[j]) - ref) <= (8 + 2 * channels) * vf::eps<T>() * ref, "C19:first-state-normalisation", "weight " << j << " = "
                << vf::show(first[j]) << " is not the user's weight normalised (" << vf::show<long double>(ref) << ")");
        }
    }
    bool changed = false;
    std::size_t b0 = 0, ci = 0;
    for (std::size_t k = 0; k != iters; ++k)
    {
        auto const& res = chk.results()[k];
        std::vector<T> const& alpha = res.channel_weights();
        if (k + 1 < iters)
        {
            std::vector<T> const expect = hep::multi_channel_refine_weights(alpha, res.adjustment_data(), minw, beta);
            VF_CHECK(c, vf::same_bits(chk.results()[k + 1].channel_weights(), expect), "C19:next-state", "result " << (k + 1) << " records " << vf::show(chk.results()[k + 1].channel_weights())
                << " which is not the refinement " << vf::show(expect) << " of result " << k);
            if (!vf::same_bits(expect, alpha)) { changed = true; }
            // independent statement of "derived from the previous one": the documented refinement in long double
            // (w_i W_i^beta normalised, raised to the minimum weight, normalised again), for the channels that carry information
            {
                std::vector<T> const& next = chk.results()[k + 1].channel_weights();
                std::vector<T> const& data = res.adjustment_data();
                std::vector<long double> raw(channels, 0.0L);
                long double norm = 0;
                for (std::size_t j = 0; j != channels; ++j) { raw[j] = static_cast<long double>(alpha[j]) * std::pow(static_cast<long double>(data[j]), static_cast<long double>(beta)); norm += raw[j]; }
                if (norm > 0 && std::isfinite(norm))
                {
                    std::vector<long double> u(channels, 0.0L);
                    long double usum = 0, nsum = 0;
                    for (std::size_t j = 0; j != channels; ++j) { if (raw[j] > 0) { u[j] = std::max<long double>(raw[j] / norm, minw); usum += u[j]; } nsum += next[j]; }
                    long double const tiny = std::numeric_limits<T>::min();
                    bool denormal = false;
                    for (std::size_t j = 0; j != channels; ++j) { if (raw[j] > 0 && raw[j] < tiny * std::ldexp(1.0L, std::numeric_limits<T>::digits)) { denormal = true; } }
                    VF_CHECK(c, std::fabs(nsum - 1.0L) <= (4.0L + 2.0L * channels) * vf::eps<T>(), "C19:next-state-model", "the weights recorded by result " << (k + 1) << " sum to "
                        << vf::show<long double>(nsum));
                    for (std::size_t j = 0; j != channels && !denormal; ++j)
                    {
                        if (!(raw[j] > 0)) { continue; }
                        long double const ref = u[j] / usum;
                        VF_CHECK(c, std::fabs(static_cast<long double>(next[j]) - ref) <= (8.0L + 2.0L * channels) * vf::eps<T>() * ref + 4 * tiny, "C19:next-state-model", "result " << (k + 1)
                            << " records weight " << vf::show(next[j]) << " for channel " << j << ", the documented refinement of result " << k << " gives " << vf::show<long double>(ref)
                            << " (weights " << vf::show(alpha) << ", data " << vf::show(data) << ", beta " << vf::show(beta) << ", minimum " << vf::show(minw) << ")");
                    }
                }
            }
        }
        long double atot = 0;
        std::vector<long double> cum;
        for (auto a : alpha) { atot += a; }
        { long double run = 0; for (auto a : alpha) { run += a; cum.push_back(run / atot); } }
        for (std::size_t i = b0; i != log.cuts[k]; ++i)
        {
            Rec<T> const& r = log.recs[i];
            for (std::size_t d = 0; d != dims; ++d)
            {
                VF_CHECK(c, vf::same_bits(r.point[d], canon[ci + d]), "C19:random-numbers", "iteration " << k << ": the point's random number " << vf::show(r.point[d])
                    << " is not the " << (ci + d) << "-th canonical number of the stream " << vf::show(canon[ci + d]));
            }
            long double const usel = canon[ci + dims];
            ci += dims + 1;
            // the channel is the interval of the recorded cumulative weights that contains the selection number
            VF_CHECK(c, r.channel < channels && alpha[r.channel] > T(0), "C19:sampled-channel", "iteration " << k << ": channel " << r.channel << " has recorded weight "
                << (r.channel < channels ? vf::show(alpha[r.channel]) : std::string("?")));
            long double const lo = r.channel ? cum[r.channel - 1] : 0.0L, hi = cum[r.channel], tol = 4 * channels * vf::eps<T>();
            VF_CHECK(c, usel >= lo - tol && usel <= hi + tol, "C19:sampled-channel", "iteration " << k << ": selection number " << vf::show<long double>(usel) << " selected channel "
                << r.channel << " whose interval under the recorded weights is [" << vf::show<long double>(lo) << ", " << vf::show<long double>(hi) << "]");
            // coordinates: the family's own map of the selected channel (harness code) at the known numbers
            std::vector<T> x(dims);
            fam.map(r.channel, r.point, x);
            for (std::size_t d = 0; d != dims; ++d) { VF_CHECK(c, vf::same_bits(x[d], r.coords[d]), "C19:coordinates", "coordinates differ from the channel map of the selected channel"); }
            // weight = J / sum_j alpha_j p_j with the recorded alpha
            long double den = 0;
            T const cf = fam.common_factor(x);
            for (std::size_t j = 0; j != channels; ++j) { if (alpha[j] != T(0)) { den += static_cast<long double>(alpha[j]) * (cf * fam.density(j, x)); } }
            long double const wref = static_cast<long double>(cf) / den;
            VF_CHECK(c, std::fabs(static_cast<long double>(r.weight) - wref) <= (4 + 2 * channels) * vf::eps<T>() * wref, "C19:sampled-weight", "iteration " << k << ": weight "
                << vf::show(r.weight) << " is not jacobian / sum alpha_j p_j = " << vf::show<long double>(wref) << " with the recorded weights " << vf::show(alpha));
            ++c.sub;
        }
        b0 = log.cuts[k];
    }
    VF_CHECK(c, vf::same_bits(chk.channel_weights(), hep::multi_channel_refine_weights(chk.results().back().channel_weights(), chk.results().back().adjustment_data(), minw, beta)),
        "C19:next-state", "chkpt.channel_weights() is not the refinement of the last result");
    if (user) { c.label("user-state"); }
    if (resumed) { c.label("resumed"); }
    if (resumed && (mask >> 63)) { c.label("start-checkpoint-through-text"); }
    if (family == 3) { c.label("non-finite-region"); }
    c.label("MULTI");
    c.nontrivial = (iters >= 2 && changed) || user;
}

void run(vf::Ctx& c)
{
    bool const multi = c.t.flag();
    vf::with_type(c.t, [&](auto tag) {
        using T = decltype(tag);
        if (multi) { run_multi<T>(c); } else { run_vegas<T>(c); }
    });
}

} // namespace

vf::Property const vf::property = {"C19", "", run, nullptr, nullptr};
