// C08 - channel weights stay a probability vector; disabled channels and the floor are respected.
// (a) function level: chains of multi_channel_refine_weights on generated weights / data / beta /
//     minimum weight against invariants and a long double reference model;
// (b) run level: real hep::multi_channel runs on the PWC family (iterations without information,
//     disabled channels, floor) - every recorded weight vector obeys the invariants.
#include "hep/mc/multi_channel.hpp"
#include "hep/mc/multi_channel_chkpt.hpp"
#include "hep/mc/multi_channel_integrand.hpp"
#include "hep/mc/multi_channel_refine_weights.hpp"

#include "../lib/gen.hpp"
#include "../lib/pwc.hpp"
#include "../lib/harness.hpp"

namespace
{

template <typename T> struct dec;
template <> struct dec<float> { static constexpr int value = 15; };
template <> struct dec<double> { static constexpr int value = 100; };
template <> struct dec<long double> { static constexpr int value = 100; };

template <typename T>
void check_vector(vf::Ctx& c, std::vector<T> const& r, std::vector<T> const& before, char const* what)
{
    std::size_t const n = r.size();
    VF_CHECK(c, n == before.size(), "C08:size", what << ": size changed");
    long double sum = 0;
    for (std::size_t i = 0; i != n; ++i)
    {
        VF_CHECK(c, std::isfinite(r[i]), "C08:not-finite", what << ": weight " << i << " is " << vf::show(r[i]) << " in " << vf::show(r));
        VF_CHECK(c, r[i] >= T(0), "C08:negative", what << ": weight " << i << " is " << vf::show(r[i]));
        VF_CHECK(c, !(before[i] == T(0)) || r[i] == T(0), "C08:re-enabled", what << ": channel " << i
            << " had weight zero and now has " << vf::show(r[i]));
        sum += r[i];
    }
    long double const tol = 4.0L * n * vf::eps<T>();
    c.note_margin(tol, std::fabs(sum - 1.0L));
    VF_CHECK(c, std::fabs(sum - 1.0L) <= tol, "C08:sum", what << ": weights sum to " << vf::show<long double>(sum) << " : " << vf::show(r));
}

template <typename T>
void function_level(vf::Ctx& c)
{
    vf::Tape& t = c.t;
    std::string how;
    std::vector<T> w = vf::gen_weights<T>(t, 40, &how);
    std::size_t const n = w.size();
    // keep positive weights and data inside [10^-dec, 10^dec] so that no product w * W^beta leaves the normal range
    // of T (underflow of intermediates is not what the property is about)
    T const lowest = static_cast<T>(std::pow(10.0L, -static_cast<long double>(dec<T>::value)));
    T const highest = static_cast<T>(std::pow(10.0L, static_cast<long double>(dec<T>::value)));
    auto clampv = [&](T& x) { if (x > T(0) && x < lowest) { x = lowest; } if (x > highest) { x = highest; } };
    for (auto& x : w) { clampv(x); }
    // beta in (0,1]
    T beta;
    switch (t.pick(5))
    {
    case 0: beta = T(0.25); break;
    case 1: beta = T(1); break;
    case 2: beta = T(0.5); break;
    case 3: beta = T(1) / T(64); break;
    default: beta = static_cast<T>(0.001L + 0.999L * t.unit()); break;
    }
    // minimum weight in [0, 1/n)
    T minw;
    switch (t.pick(5))
    {
    case 0: minw = T(0); break;
    case 1: minw = T(0.01) / T(n); break;
    case 2: minw = T(0.5) / T(n); break;
    case 3: minw = T(0.999) / T(n); break; // clamps (almost) everything
    default: minw = static_cast<T>(t.unit() / n * 0.999); break;
    }
    std::size_t const chain = 1 + (t.pick(4) == 3 ? t.range(0, 29) : t.range(0, 3));
    c.desc << vf::type_name<T>::get() << " refine chain=" << chain << " beta=" << vf::show(beta) << " min=" << vf::show(minw)
           << " weights(" << how << ")=" << vf::show(w) << " data=";
    bool unequal_data = false, floor_active = false, had_zero_info = false;
    std::size_t disabled0 = 0;
    for (auto x : w) { if (x == T(0)) { ++disabled0; } }

    for (std::size_t step = 0; step != chain; ++step)
    {
        std::vector<T> data(n);
        std::size_t const dcls = t.pick(7);
        bool extreme = false;
        switch (dcls)
        {
        case 0: break; // all zero
        case 1: data[t.pick(n)] = vf::gen_real<T>(t, 0u, 6); break;
        case 2: { T const v = vf::gen_real<T>(t, 0u, 6); for (auto& x : data) { x = v; } break; }
        case 3: for (auto& x : data) { x = static_cast<T>(t.unit()); } break;
        case 4:
        {
            // extreme spread: products w * W^beta from just above the smallest normal number to just below
            // max / n - the share of a small channel underflows to zero, yet the channel is enabled and must get the floor
            extreme = true;
            long double const lo = static_cast<long double>(std::numeric_limits<T>::min()) * 1024, hi = static_cast<long double>(std::numeric_limits<T>::max()) / (4096.0L * n);
            for (std::size_t i = 0; i != n; ++i)
            {
                if (!(w[i] > T(0))) { data[i] = T(1); continue; }
                long double const target = (t.pick(3) == 0) ? lo : ((t.pick(2) == 0) ? hi : 1.0L);
                long double const datum = std::pow(target / static_cast<long double>(w[i]), 1.0L / static_cast<long double>(beta));
                data[i] = static_cast<T>(datum);
                if (!std::isfinite(data[i]) || !(data[i] > T(0)) || data[i] < std::numeric_limits<T>::min()) { data[i] = T(1); }
            }
            break;
        }
        case 6:
        {
            // all products w * W^beta positive subnormal numbers (tiny data, any beta that leaves them positive): the sum that
            // normalises them is subnormal too - the weights are still a probability vector (judged by the invariants)
            extreme = true;
            for (std::size_t i = 0; i != n; ++i)
            {
                if (!(w[i] > T(0))) { data[i] = T(0); continue; }
                long double const target = static_cast<long double>(std::numeric_limits<T>::denorm_min()) * (1 + t.pick(1000));
                long double const datum = std::pow(target / static_cast<long double>(w[i]), 1.0L / static_cast<long double>(beta));
                data[i] = static_cast<T>(datum);
                if (!std::isfinite(data[i]) || !(data[i] > T(0))) { data[i] = std::numeric_limits<T>::denorm_min(); }
            }
            c.label("subnormal-products");
            break;
        }
        default:
        {
            for (auto& x : data)
            {
                int const dd = dec<T>::value;
                long double const e = (t.unit() * 2 - 1) * dd;
                x = t.chance(1, 8) ? T(0) : static_cast<T>(std::pow(10.0L, e) * (1.0L + t.unit()));
            }
            break;
        }
        }
        if (!extreme) { for (auto& x : data) { clampv(x); } }
        if (extreme) { c.label("extreme-spread-data"); }
        c.desc << (step ? ";" : "") << vf::show(data, 12);

        std::vector<T> const r = hep::multi_channel_refine_weights(w, data, minw, beta);
        ++c.sub;

        // information: is there an enabled channel with positive datum?
        long double norm = 0;
        std::vector<long double> raw(n);
        for (std::size_t i = 0; i != n; ++i)
        {
            raw[i] = static_cast<long double>(w[i]) * std::pow(static_cast<long double>(data[i]), static_cast<long double>(beta));
            norm += raw[i];
        }
        if (!(norm > 0))
        {
            had_zero_info = true;
            // no information: the weights stay as they were, bit for bit
            VF_CHECK(c, vf::same_bits(r, w), "C08:zero-data-changes-weights", "step " << step << ": all adjustment data of the enabled "
                "channels are zero but the weights changed from " << vf::show(w) << " to " << vf::show(r));
            continue; // w unchanged (possibly unnormalised user input): next step
        }
        check_vector(c, r, w, "refined weights");

        // reference model
        std::vector<long double> u(n, 0.0L);
        long double usum = 0;
        T first_pos = T(0);
        for (std::size_t i = 0; i != n; ++i)
        {
            if (raw[i] > 0)
            {
                long double const v = raw[i] / norm;
                u[i] = std::max<long double>(v, minw);
                if (v < static_cast<long double>(minw)) { floor_active = true; }
                usum += u[i];
                if (first_pos == T(0)) { first_pos = data[i]; }
                else if (data[i] != first_pos) { unequal_data = true; }
            }
        }
        long double const tiny = std::numeric_limits<T>::min();
        for (std::size_t i = 0; i != n; ++i)
        {
            if (!(w[i] > T(0)) || !(data[i] > T(0))) { continue; } // the property speaks about enabled channels with positive datum
            // a product w * W^beta in the denormal range of T (possible after a chain has driven a weight to 1e-29 in
            // float) is computed with a few bits only: such a channel is held to the invariants and the floor, not the model
            bool const denormal_product = raw[i] < tiny * std::ldexp(1.0L, std::numeric_limits<T>::digits);
            long double const ref = u[i] / usum;
            // two sums over n terms, two divisions, pow and fmax: (8 + 2 n) eps relative
            long double const tol = (8.0L + 2.0L * n) * vf::eps<T>() * ref + 4 * tiny;
            long double const err = std::fabs(static_cast<long double>(r[i]) - ref);
            // a product w * W^beta that underflows in T is outside the generated range by construction;
            // a share below the smallest normal number only gets the absolute slack
            if (!denormal_product) { c.note_margin(tol, err); }
            VF_CHECK(c, denormal_product || err <= tol, "C08:model", "step " << step << ": channel " << i << " got " << vf::show(r[i]) << ", model "
                << vf::show<long double>(ref) << " (w=" << vf::show(w[i]) << ", datum=" << vf::show(data[i]) << ")");
            long double const floor = static_cast<long double>(minw) / (1.0L + n * static_cast<long double>(minw)) * (1.0L - 8 * vf::eps<T>());
            VF_CHECK(c, static_cast<long double>(r[i]) >= floor, "C08:floor", "step " << step << ": channel " << i << " got "
                << vf::show(r[i]) << " below min/(1+n*min) = " << vf::show<long double>(floor));
        }
        w = r;
    }
    std::size_t enabled = 0;
    for (auto x : w) { if (x > T(0)) { ++enabled; } }
    if (had_zero_info) { c.label("zero-information-step"); }
    if (floor_active) { c.label("floor-active"); }
    if (disabled0) { c.label("disabled-channel"); }
    if (chain >= 2) { c.label("chain>=2"); }
    c.nontrivial = n >= 2 && unequal_data && (floor_active || disabled0 > 0 || chain >= 2);
}

template <typename T>
void run_level(vf::Ctx& c)
{
    vf::Tape& t = c.t;
    std::size_t const channels = 1 + t.pick(6);
    vf::PwcFamily<T> fam = vf::gen_pwc<T>(t, 2, channels, 4);
    fam.jac_mode = 0;
    std::string how;
    bool const user_weights = t.flag();
    std::vector<T> w0;
    if (user_weights)
    {
        w0 = vf::gen_weights<T>(t, channels, &how);
        w0.resize(channels, T(1));
        bool any = false;
        for (auto x : w0) { if (x > T(0)) { any = true; } }
        if (!any) { w0[0] = T(1); }
    }
    T const beta = t.flag() ? T(0.25) : static_cast<T>(0.05L + 0.95L * t.unit());
    T const minw = t.flag() ? T(0) : static_cast<T>(t.unit() * 0.9L / channels);
    std::size_t const iters = 2 + t.pick(5);
    std::vector<std::size_t> calls;
    for (std::size_t i = 0; i != iters; ++i) { calls.push_back(t.pick(4) == 0 ? t.range(0, 3) : 20 + t.range(0, 300)); }
    // integrand: zero on part of the domain (a threshold in x_0), so that short iterations can be without information
    T const thr = static_cast<T>(t.pick(4) == 0 ? 0.0L : t.unit());
    int const fkind = static_cast<int>(t.pick(3));
    std::uint32_t const seed = static_cast<std::uint32_t>(t.next());
    // a region of non-finite values (the evaluations are dropped, the weights must stay a probability vector), and
    // the integrand may carry a distribution (second accumulator specialisation)
    int const nfkind = t.pick(3) == 0 ? 1 + static_cast<int>(t.pick(3)) : 0;
    T const nfthr = static_cast<T>(0.5L + 0.5L * t.unit());
    bool const with_dist = t.flag();
    c.desc << vf::type_name<T>::get() << " run " << fam.describe() << " weights=" << (user_weights ? how + vf::show(w0) : std::string("default"))
           << " beta=" << vf::show(beta) << " min=" << vf::show(minw) << " calls=" << vf::show(calls) << " thr=" << vf::show(thr)
           << " f=" << fkind << " seed=" << seed << (nfkind ? std::string(nfkind == 1 ? " +inf" : nfkind == 2 ? " -inf" : " NaN") + " for x0 > " + vf::show(nfthr) : std::string())
           << (with_dist ? " with a distribution" : "");

    auto f = [thr, fkind, nfkind, nfthr](hep::multi_channel_point<T> const& p) -> T {
        T const x = p.coordinates()[0];
        if (x < thr) { return T(0); }
        if (nfkind && x > nfthr)
        {
            return nfkind == 1 ? std::numeric_limits<T>::infinity() : nfkind == 2 ? -std::numeric_limits<T>::infinity() : std::numeric_limits<T>::quiet_NaN();
        }
        switch (fkind)
        {
        case 0: return T(1);
        case 1: return T(1) + T(10) * x * x;
        default: return (x > T(0.5)) ? T(-3) : T(2);
        }
    };
    vf::PwcMap<T> map{&fam, nullptr, nullptr};
    auto fd = [f](hep::multi_channel_point<T> const& p, hep::projector<T>& proj) -> T {
        T const v = f(p);
        proj.add(0, p.coordinates()[0], v);
        return v;
    };
    auto chk = user_weights ? hep::make_multi_channel_chkpt<T>(w0, minw, beta, std::mt19937(seed))
                            : hep::make_multi_channel_chkpt<T>(minw, beta, std::mt19937(seed));
    using Chk = decltype(chk);
    // the start checkpoint may be written out and read back before the first iteration (beta, minimum weight and the first
    // weights travel through text then)
    bool const start_through_text = t.pick(3) == 0;
    if (start_through_text)
    {
        chk.channels(channels);
        std::stringstream ss;
        chk.serialize(ss);
        chk = hep::make_multi_channel_chkpt<T, std::mt19937>(ss);
        c.label("start-checkpoint-through-text");
    }
    auto run_from = [&](Chk const& from, std::vector<std::size_t> const& cl) {
        return with_dist
            ? hep::multi_channel(hep::make_multi_channel_integrand<T>(fd, fam.dims, map, fam.map_dims, channels, hep::make_dist_params<T>(4, T(0), T(1), "x")), cl, from,
                  hep::callback<Chk>(hep::callback_mode::silent))
            : hep::multi_channel(hep::make_multi_channel_integrand<T>(f, fam.dims, map, fam.map_dims, channels), cl, from, hep::callback<Chk>(hep::callback_mode::silent));
    };
    auto const result = run_from(chk, calls);
    VF_CHECK(c, result.results().size() == iters, "C08:run-length", "performed " << result.results().size() << " of " << iters << " iterations");

    // which channels are disabled at the start
    std::vector<T> prev = result.results().front().channel_weights();
    if (user_weights)
    {
        for (std::size_t i = 0; i != channels; ++i)
        {
            VF_CHECK(c, (w0[i] == T(0)) == (prev[i] == T(0)), "C08:initial-disabled", "initial weights " << vf::show(prev) << " for user weights " << vf::show(w0));
        }
    }
    if (!user_weights)
    {
        // default weights: 1 / channels in T
        for (std::size_t i = 0; i != channels; ++i)
        {
            VF_CHECK(c, std::fabs(static_cast<long double>(prev[i]) * channels - 1.0L) <= 2 * vf::eps<T>(), "C08:initial-default", "default weight " << i << " of " << channels << " is "
                << vf::show(prev[i]));
        }
    }
    // the initial weights pass through the same routine (unit data): every enabled channel is raised to the floor
    {
        long double const floor = static_cast<long double>(minw) / (1.0L + channels * static_cast<long double>(minw)) * (1.0L - 8 * vf::eps<T>());
        for (std::size_t i = 0; i != channels; ++i)
        {
            if (prev[i] > T(0))
            {
                VF_CHECK(c, static_cast<long double>(prev[i]) >= floor, "C08:initial-floor", "initial weight " << vf::show(prev[i]) << " of channel " << i
                    << " is below min/(1+n*min) = " << vf::show<long double>(floor) << " (minimum weight " << vf::show(minw) << ")");
            }
        }
        if (user_weights)
        {
            // and they are the user's weights normalised, clamped, normalised
            long double tot = 0;
            for (auto x : w0) { tot += x; }
            std::vector<long double> u(channels, 0.0L);
            long double usum = 0;
            for (std::size_t i = 0; i != channels; ++i) { if (w0[i] > T(0)) { u[i] = std::max<long double>(static_cast<long double>(w0[i]) / tot, minw); usum += u[i]; } }
            for (std::size_t i = 0; i != channels; ++i)
            {
                long double const ref = u[i] / usum;
                VF_CHECK(c, std::fabs(static_cast<long double>(prev[i]) - ref) <= (8.0L + 2 * channels) * vf::eps<T>() * ref + 4 * std::numeric_limits<T>::min(), "C08:initial-model",
                    "initial weight of channel " << i << " is " << vf::show(prev[i]) << ", the user's weights normalised and raised to the minimum give " << vf::show<long double>(ref));
            }
        }
    }
    bool changed = false, zero_info = false;
    std::size_t disabled = 0;
    for (auto x : prev) { if (x == T(0)) { ++disabled; } }
    for (std::size_t k = 0; k != iters; ++k)
    {
        auto const& res = result.results()[k];
        std::vector<T> const& wk = res.channel_weights();
        check_vector(c, wk, prev, "weights recorded in a result");
        if (k > 0)
        {
            auto const& before = result.results()[k - 1];
            bool any = false;
            for (std::size_t i = 0; i != channels; ++i) { if (before.channel_weights()[i] > T(0) && before.adjustment_data()[i] > T(0)) { any = true; } }
            long double const floor = static_cast<long double>(minw) / (1.0L + channels * static_cast<long double>(minw)) * (1.0L - 8 * vf::eps<T>());
            // the documented refinement of the previous result with the beta and the minimum weight the run was configured with
            if (any)
            {
                std::vector<T> const& a0 = before.channel_weights();
                std::vector<T> const& d0 = before.adjustment_data();
                std::vector<long double> raw(channels, 0.0L), u(channels, 0.0L);
                long double norm = 0, usum = 0;
                bool denormal = false;
                long double const tiny = std::numeric_limits<T>::min();
                for (std::size_t i = 0; i != channels; ++i)
                {
                    raw[i] = static_cast<long double>(a0[i]) * std::pow(static_cast<long double>(d0[i]), static_cast<long double>(beta));
                    norm += raw[i];
                    if (raw[i] > 0 && raw[i] < tiny * std::ldexp(1.0L, std::numeric_limits<T>::digits)) { denormal = true; }
                }
                for (std::size_t i = 0; i != channels; ++i) { if (raw[i] > 0) { u[i] = std::max<long double>(raw[i] / norm, minw); usum += u[i]; } }
                for (std::size_t i = 0; i != channels && !denormal && std::isfinite(norm); ++i)
                {
                    if (!(raw[i] > 0)) { continue; }
                    long double const ref = u[i] / usum;
                    VF_CHECK(c, std::fabs(static_cast<long double>(wk[i]) - ref) <= (8.0L + 2.0L * channels) * vf::eps<T>() * ref + 4 * tiny, "C08:run-model", "iteration " << k << ": channel " << i
                        << " has weight " << vf::show(wk[i]) << ", the refinement of the previous result with beta " << vf::show(beta) << " and minimum weight " << vf::show(minw) << " gives "
                        << vf::show<long double>(ref));
                }
            }
            for (std::size_t i = 0; any && i != channels; ++i)
            {
                if (before.channel_weights()[i] > T(0) && before.adjustment_data()[i] > T(0))
                {
                    VF_CHECK(c, static_cast<long double>(wk[i]) >= floor, "C08:run-floor", "iteration " << k << ": channel " << i << " has weight " << vf::show(wk[i])
                        << " below min/(1+n*min) = " << vf::show<long double>(floor) << " although its datum " << vf::show(before.adjustment_data()[i]) << " is positive");
                }
            }
        }
        if (!vf::same_bits(wk, prev)) { changed = true; }
        bool info = false;
        for (std::size_t i = 0; i != channels; ++i) { if (wk[i] > T(0) && res.adjustment_data()[i] > T(0)) { info = true; } }
        if (!info) { zero_info = true; }
        for (auto d : res.adjustment_data())
        {
            VF_CHECK(c, std::isfinite(d) && d >= T(0), "C08:run-data", "adjustment datum " << vf::show(d));
        }
        prev = wk;
        ++c.sub;
    }
    // the same checkpoint object rolled back to its start and run again with other call counts: every iteration of the
    // second campaign uses the refinement of ITS predecessor (nothing of the first campaign may linger in the object)
    {
        Chk again = result;
        again.rollback(0);
        std::vector<std::size_t> calls2 = calls;
        for (auto& x : calls2) { x += 7; }
        auto const second = run_from(again, calls2);
        VF_CHECK(c, second.results().size() == iters, "C08:run-length", "the repeated campaign performed " << second.results().size() << " of " << iters << " iterations");
        VF_CHECK(c, vf::same_bits(second.results().front().channel_weights(), result.results().front().channel_weights()), "C08:repeated-campaign", "after rollback(0) the first iteration uses "
            << vf::show(second.results().front().channel_weights()) << ", the first campaign started with " << vf::show(result.results().front().channel_weights()));
        for (std::size_t k = 1; k < second.results().size(); ++k)
        {
            auto const& before = second.results()[k - 1];
            std::vector<T> const expect = hep::multi_channel_refine_weights(before.channel_weights(), before.adjustment_data(), second.min_weight(), second.beta());
            VF_CHECK(c, vf::same_bits(expect, second.results()[k].channel_weights()), "C08:repeated-campaign", "campaign repeated after rollback(0): iteration " << k << " used "
                << vf::show(second.results()[k].channel_weights()) << ", the refinement of its predecessor is " << vf::show(expect));
        }
        ++c.sub;
    }
    std::vector<T> const next = result.channel_weights();
    check_vector(c, next, prev, "chkpt.channel_weights()");
    if (zero_info) { c.label("run-iteration-without-information"); }
    if (disabled) { c.label("disabled-channel"); }
    if (nfkind) { c.label("run-with-non-finite-region"); }
    if (with_dist) { c.label("run-with-distribution"); }
    c.label("run-level");
    c.nontrivial = channels >= 2 && changed && (disabled > 0 || minw > T(0) || zero_info);
}

void run(vf::Ctx& c)
{
    bool const runlevel = c.t.pick(4) == 3;
    vf::with_type(c.t, [&](auto tag) {
        using T = decltype(tag);
        if (runlevel) { run_level<T>(c); } else { function_level<T>(c); }
    });
}

} // namespace

vf::Property const vf::property = {"C08", "", run, nullptr, nullptr};
