// C07 - the VEGAS grid stays a valid partition and refinement equidistributes importance.
// (a) function level: chains of vegas_refine_pdf on generated grids / data / alpha against the
//     partition invariant and a long double model of the documented algorithm, judged in F-space;
// (b) sampling level: vegas_icdf / vegas_iteration with forced canonical numbers (0, 1, largest
//     below 1, every b/bins and neighbours): bin < bins, point inside its bin, weight = prod(bins*width);
// (c) run level: real hep::vegas runs on peaked integrands, grid valid after every iteration.
#include "hep/mc/vegas.hpp"
#include "hep/mc/vegas_pdf.hpp"
#include "hep/mc/vegas_point.hpp"

#include "../lib/gen.hpp"
#include "../lib/instruments.hpp"
#include "../lib/harness.hpp"
#include "../lib/vegas_model.hpp"

#include <sys/wait.h>

namespace
{

char const* const SIG_OVERFLOW = "C07:smoothed-sum-overflows";

template <typename T>
void check_partition(vf::Ctx& c, hep::vegas_pdf<T> const& p, char const* what)
{
    for (std::size_t i = 0; i != p.dimensions(); ++i)
    {
        VF_CHECK(c, p.bin_left(i, 0) == T(0), "C07:first-boundary", what << ": dimension " << i << " starts at " << vf::show(p.bin_left(i, 0)));
        VF_CHECK(c, p.bin_left(i, p.bins()) == T(1), "C07:last-boundary", what << ": dimension " << i << " ends at " << vf::show(p.bin_left(i, p.bins())));
        for (std::size_t b = 0; b != p.bins(); ++b)
        {
            T const l = p.bin_left(i, b), r = p.bin_left(i, b + 1);
            VF_CHECK(c, std::isfinite(l) && std::isfinite(r), "C07:not-finite", what << ": dimension " << i << " boundary " << b
                << " = " << vf::show(l) << ", next " << vf::show(r));
            VF_CHECK(c, l <= r, "C07:not-monotone", what << ": dimension " << i << " boundary " << b << " = " << vf::show(l)
                << " > boundary " << (b + 1) << " = " << vf::show(r));
        }
    }
}

// does the smoothing of this dimension overflow T (finding F4)?
template <typename T>
bool smoothing_overflows(std::vector<T> const& d)
{
    long double const lim = static_cast<long double>(std::numeric_limits<T>::max()) / 2;
    long double total = 0;
    std::size_t const B = d.size();
    for (std::size_t b = 0; b != B; ++b)
    {
        long double tri = d[b];
        if (b > 0) { tri += d[b - 1]; }
        if (b + 1 < B) { tri += d[b + 1]; }
        if (tri > lim) { return true; }
        total += d[b];
    }
    return total * 1.5L > lim;
}

template <typename T>
hep::vegas_pdf<T> gen_grid(vf::Tape& t, std::size_t dims, std::size_t bins, std::string& how)
{
    hep::vegas_pdf<T> p(dims, bins);
    switch (t.pick(4))
    {
    case 0: how = "uniform"; break;
    case 1:
    {
        how = "user";
        for (std::size_t i = 0; i != dims; ++i)
        {
            std::vector<T> e;
            for (std::size_t b = 1; b < bins; ++b)
            {
                T v;
                switch (t.pick(4))
                {
                case 0: v = static_cast<T>(t.unit()); break;
                case 1: v = static_cast<T>(static_cast<long double>(t.range(0, 64)) / 64); break;  // ties -> zero width bins
                case 2: v = static_cast<T>(0.5L + (t.unit() - 0.5L) * 1e-12L); break;                // very narrow bins
                default: v = static_cast<T>(std::pow(t.unit(), 6.0)); break;                           // crowded near 0
                }
                if (!(v >= T(0))) { v = T(0); }
                if (v > T(1)) { v = T(1); }
                e.push_back(v);
            }
            std::sort(e.begin(), e.end());
            for (std::size_t b = 1; b < bins; ++b) { p.set_bin_left(i, b, e[b - 1]); }
        }
        break;
    }
    case 2:
    {
        how = "power";
        for (std::size_t i = 0; i != dims; ++i)
        {
            long double const ex = 0.25L + 4 * t.unit();
            for (std::size_t b = 1; b < bins; ++b) { p.set_bin_left(i, b, static_cast<T>(std::pow(static_cast<long double>(b) / bins, ex))); }
        }
        break;
    }
    default:
    {
        // adapted: refine a few times on a peaked data set
        how = "adapted";
        std::size_t const rounds = 1 + t.pick(6);
        long double const centre = t.unit(), width = 0.002L + 0.2L * t.unit();
        for (std::size_t r = 0; r != rounds; ++r)
        {
            std::vector<T> data(dims * bins);
            for (std::size_t i = 0; i != dims; ++i)
            {
                for (std::size_t b = 0; b != bins; ++b)
                {
                    long double const mid = 0.5L * (static_cast<long double>(p.bin_left(i, b)) + p.bin_left(i, b + 1));
                    long double const wb = static_cast<long double>(p.bin_left(i, b + 1)) - p.bin_left(i, b);
                    long double const z = (mid - centre) / width;
                    data[i * bins + b] = static_cast<T>(std::exp(-z * z) * wb * wb * bins * bins);
                }
            }
            p = hep::vegas_refine_pdf(p, T(1.5), data);
        }
        break;
    }
    }
    return p;
}

template <typename T>
T gen_alpha(vf::Tape& t)
{
    switch (t.pick(7))
    {
    case 0: return T(1.5);
    case 1: return T(0);
    case 2: return T(0.5);
    case 3: return T(1);
    case 4: return T(3);
    case 5: return static_cast<T>(3 * t.unit());
    default: return static_cast<T>(static_cast<long double>(t.range(0, 12)) / 4);
    }
}

template <typename T>
void gen_data_dim(vf::Tape& t, std::vector<T>& data, std::size_t i, std::size_t B, std::string& how)
{
    T* d = &data[i * B];
    for (std::size_t b = 0; b != B; ++b) { d[b] = T(0); }
    switch (t.pick(9))
    {
    case 0: how += "Z"; break; // all zero
    case 1: how += "S"; { std::size_t const pos = t.pick(3) == 0 ? 0 : (t.pick(2) ? B - 1 : t.pick(B)); d[pos] = vf::gen_real<T>(t, vf::R_WIDE, 6); } break;
    case 2: how += "2"; d[t.pick(B)] = vf::gen_real<T>(t, 0u, 6); d[t.pick(B)] = vf::gen_real<T>(t, 0u, 6); break;
    case 3: how += "W"; for (std::size_t b = 0; b != B; ++b) { d[b] = t.chance(1, 6) ? T(0) : vf::gen_real<T>(t, vf::R_WIDE, 6); } break;
    case 4: how += "D"; for (std::size_t b = 0; b != B; ++b) { d[b] = std::numeric_limits<T>::denorm_min() * T(1 + t.range(0, 1000)); } break;
    case 5: how += "E"; { T const v = vf::gen_real<T>(t, vf::R_WIDE, 6); for (std::size_t b = 0; b != B; ++b) { d[b] = v; } } break;
    case 6:
    {
        how += "L"; // log-uniform over a generated number of decades, generated exponent offset
        int const maxdec = std::numeric_limits<T>::max_exponent10 - 2;
        int const span = static_cast<int>(t.range(0, 2 * maxdec));
        int const lo = -maxdec + static_cast<int>(t.range(0, 2 * maxdec - span));
        std::uint64_t const ss = t.stream_seed();
        for (std::size_t b = 0; b != B; ++b)
        {
            long double const e = lo + span * vf::stream_unit(ss, 2 * b);
            d[b] = static_cast<T>(std::pow(10.0L, e) * (1 + vf::stream_unit(ss, 2 * b + 1)));
        }
        break;
    }
    default:
    {
        how += "G"; // smooth peak (what a real iteration produces)
        long double const centre = t.unit(), width = 0.001L + 0.3L * t.unit(), scale = std::pow(10.0L, (t.unit() * 2 - 1) * 8);
        for (std::size_t b = 0; b != B; ++b)
        {
            long double const z = ((b + 0.5L) / B - centre) / width;
            d[b] = static_cast<T>(scale * std::exp(-z * z));
        }
        break;
    }
    }
    for (std::size_t b = 0; b != B; ++b) { if (!std::isfinite(d[b]) || d[b] < T(0)) { d[b] = T(1); } }
}

template <typename T>
void function_level(vf::Ctx& c)
{
    vf::Tape& t = c.t;
    std::size_t const dims = 1 + t.pick(4);
    std::size_t bins;
    switch (t.pick(4))
    {
    case 0: bins = 2 + t.range(0, 6); break;
    case 1: bins = 2 + t.range(0, 30); break;
    case 2: bins = 2 + t.range(0, 198); break;
    default: bins = 128; break;
    }
    if (!vf::thorough() && bins > 64 && dims > 2) { bins = 64; }
    std::string ghow;
    hep::vegas_pdf<T> pdf = gen_grid<T>(t, dims, bins, ghow);
    T const alpha = gen_alpha<T>(t);
    std::size_t const chain = 1 + (t.pick(4) == 3 ? t.range(0, 49) : t.range(0, 4));
    c.desc << vf::type_name<T>::get() << " refine d=" << dims << " bins=" << bins << " alpha=" << vf::show(alpha) << " chain=" << chain
           << " start=" << ghow << ' ' << show_grid(pdf, 10) << " data=";
    check_partition(c, pdf, "generated start grid");
    bool moved = false, judged = false, zero_info = false, skipped = false, excluded = false, huge_data = false;
    for (std::size_t step = 0; step != chain; ++step)
    {
        std::vector<T> data(dims * bins);
        std::string how;
        for (std::size_t i = 0; i != dims; ++i)
        {
            gen_data_dim<T>(t, data, i, bins, how);
            std::vector<T> dd(data.begin() + i * bins, data.begin() + (i + 1) * bins);
            if (smoothing_overflows(dd)) { huge_data = true; }
            if (smoothing_overflows(dd) && vf::is_known(SIG_OVERFLOW))
            {
                // known finding: route around the class by scaling this dimension's data into range
                excluded = true;
                for (std::size_t b = 0; b != bins; ++b) { data[i * bins + b] = std::ldexp(data[i * bins + b], -12 - static_cast<int>(std::log2(bins))); }
            }
        }
        c.desc << (step ? "|" : "") << how;
        if (step == 0) { c.desc << vf::show(data, 16); }
        if (std::getenv("VERIF_TRACE")) { std::fprintf(stderr, "TRACE step %zu: %s\n  grid %s\n  data %s\n", step, c.desc.str().c_str(), show_grid(pdf, 400).c_str(), vf::show(data, 1000).c_str()); }
        hep::vegas_pdf<T> const next = hep::vegas_refine_pdf(pdf, alpha, data);
        ++c.sub;
        VF_CHECK(c, next.bins() == bins && next.dimensions() == dims, "C07:shape", "shape changed");
        check_partition(c, next, "refined grid");
        for (std::size_t i = 0; i != dims; ++i)
        {
            DimStats const st = check_dimension<T>(c, pdf, next, i, alpha, data);
            judged |= st.judged; zero_info |= st.zero_info; skipped |= st.skipped_model;
            for (std::size_t b = 0; b <= bins; ++b) { if (!vf::same_bits(pdf.bin_left(i, b), next.bin_left(i, b))) { moved = true; } }
        }
        pdf = next;
    }
    if (zero_info) { c.label("zero-data-dimension"); }
    if (skipped) { c.label("model-skipped-class"); }
    if (excluded) { c.label("excluded_known"); }
    if (huge_data && !excluded) { c.label("data-near-largest-finite"); }
    if (chain >= 2) { c.label("chain>=2"); }
    if (ghow != "uniform") { c.label("non-uniform-start"); }
    c.label("function-level");
    c.nontrivial = judged && moved && chain >= 2;
}

// forced canonical numbers through vegas_icdf and vegas_iteration
template <typename T>
void sampling_level(vf::Ctx& c)
{
    vf::Tape& t = c.t;
    bool const highdim = t.pick(6) == 5;
    std::size_t const dims = highdim ? 4 + t.range(0, 96) : 1 + t.pick(3);
    std::size_t const bins = t.pick(3) == 0 ? 128 : (highdim && t.flag() ? 1000 : 2 + t.range(0, 40));
    std::string ghow;
    hep::vegas_pdf<T> const pdf = gen_grid<T>(t, dims, bins, ghow);
    c.desc << vf::type_name<T>::get() << " sampling d=" << dims << " bins=" << bins << " grid=" << ghow << ' ' << show_grid(pdf, 10);
    // candidate canonical values: 0, 1 (the documented work-around), largest below 1, b/bins and neighbours, random
    std::vector<T> cand = {T(0), T(1), std::nextafter(T(1), T(0)), std::numeric_limits<T>::min(), std::numeric_limits<T>::denorm_min(), T(0.5)};
    for (std::size_t b = 0; b <= bins; ++b)
    {
        T const u = T(b) / T(bins);
        cand.push_back(u);
        cand.push_back(std::nextafter(u, T(0)));
        cand.push_back(std::nextafter(u, T(2)));
    }
    std::uint64_t const rs = t.stream_seed();
    for (std::size_t k = 0; k != 32; ++k) { cand.push_back(static_cast<T>(vf::stream_unit(rs, k))); }
    std::vector<T> ok;
    for (T u : cand) { if (u >= T(0) && u <= T(1)) { ok.push_back(u); } }

    auto check_point = [&](std::vector<T> const& u, std::vector<T> const& x, std::vector<std::size_t> const& bin, T weight, char const* what) {
        long double wref = 1;
        for (std::size_t j = 0; j != dims; ++j)
        {
            VF_CHECK(c, bin[j] < bins, "C07:bin-range", what << ": u=" << vf::show(u[j]) << " in dimension " << j << " reports bin " << bin[j]
                << " of " << bins);
            T const l = pdf.bin_left(j, bin[j]), r = pdf.bin_left(j, bin[j] + 1);
            VF_CHECK(c, l <= x[j] && x[j] <= r, "C07:point-outside-bin", what << ": u=" << vf::show(u[j]) << " -> x=" << vf::show(x[j])
                << " outside its bin " << bin[j] << " = [" << vf::show(l) << ", " << vf::show(r) << "]");
            VF_CHECK(c, x[j] >= T(0) && x[j] <= T(1), "C07:point-outside-cube", what << ": x=" << vf::show(x[j]));
            wref *= static_cast<long double>(bins) * (static_cast<long double>(r) - l);
        }
        // in many dimensions the true weight can leave the range of T (narrow or wide bins in every dimension)
        if (wref > static_cast<long double>(std::numeric_limits<T>::max()) / 4) { return; }
        long double const tol = 4 * dims * vf::eps<T>() * wref + dims * static_cast<long double>(std::numeric_limits<T>::min());
        c.note_margin(tol, std::fabs(static_cast<long double>(weight) - wref));
        VF_CHECK(c, std::fabs(static_cast<long double>(weight) - wref) <= tol, "C07:weight", what << ": weight " << vf::show(weight)
            << " but prod(bins*width) = " << vf::show<long double>(wref));
    };

    if (highdim)
    {
        // many dimensions: generated points, every coordinate from the candidate list
        c.label("sampling-high-dimension");
        for (std::size_t k = 0; k != 24; ++k)
        {
            std::vector<T> rn(dims);
            for (std::size_t j = 0; j != dims; ++j) { rn[j] = ok[vf::mix2(rs, k * 1000 + j) % ok.size()]; }
            std::vector<T> const u0 = rn;
            std::vector<std::size_t> bin(dims);
            T const w = hep::vegas_icdf(pdf, rn, bin);
            check_point(u0, rn, bin, w, "vegas_icdf (many dimensions)");
            ++c.sub;
        }
        c.label("sampling-level");
        if (ghow != "uniform") { c.label("non-uniform-start"); }
        c.nontrivial = true;
        return;
    }
    // direct calls of vegas_icdf: every candidate in every dimension (others at 0.5)
    for (std::size_t j = 0; j != dims; ++j)
    {
        for (T u : ok)
        {
            std::vector<T> rn(dims, T(0.5));
            rn[j] = u;
            std::vector<T> const u0 = rn;
            std::vector<std::size_t> bin(dims);
            T const w = hep::vegas_icdf(pdf, rn, bin);
            check_point(u0, rn, bin, w, "vegas_icdf");
            ++c.sub;
        }
    }
    // through vegas_iteration with a scripted engine (values in [0,1) only)
    {
        std::vector<std::uint64_t> script;
        std::vector<std::vector<T>> us;
        std::size_t calls = 0;
        for (T u : ok)
        {
            if (!(u < T(1))) { continue; }
            std::vector<T> uu(dims);
            for (std::size_t j = 0; j != dims; ++j)
            {
                T const v = (j == calls % dims) ? u : ok[(calls * 7 + j * 13) % ok.size()];
                uu[j] = (v < T(1)) ? v : T(0.25);
                vf::push_canonical<T>(script, static_cast<long double>(uu[j]));
            }
            us.push_back(uu);
            ++calls;
        }
        std::size_t seen = 0;
        bool log_ok = true;
        std::string log_msg;
        auto f = [&](hep::vegas_point<T> const& p) -> T {
            if (seen < us.size() && log_ok)
            {
                try { check_point(us[seen], p.point(), p.bin(), p.weight(), "vegas_iteration"); }
                catch (vf::Failure const& fl) { log_ok = false; log_msg = fl.sig + "\x01" + fl.msg; }
            }
            ++seen;
            return T(1);
        };
        vf::script_engine eng(script);
        auto integrand = hep::make_integrand<T>(f, dims);
        auto const res = hep::vegas_iteration(integrand, calls, pdf, eng);
        if (!log_ok) { auto const pos = log_msg.find('\x01'); c.fail(log_msg.substr(0, pos), log_msg.substr(pos + 1)); }
        VF_CHECK(c, seen == calls && res.calls() == calls, "C07:iteration-calls", "integrand called " << seen << " times for " << calls << " calls");
        c.sub += calls;
    }
    c.label("sampling-level");
    if (ghow != "uniform") { c.label("non-uniform-start"); }
    c.nontrivial = ghow != "uniform";
}

// real runs on peaked integrands
template <typename T>
void run_level(vf::Ctx& c)
{
    vf::Tape& t = c.t;
    std::size_t const dims = 1 + t.pick(3);
    std::size_t const bins = t.pick(3) == 0 ? 128 : 2 + t.range(0, 60);
    std::size_t const iters = 2 + t.pick(7);
    T const alpha = gen_alpha<T>(t);
    int const fam = static_cast<int>(t.pick(4));
    long double const centre = t.unit(), width = 0.003L + 0.2L * t.unit();
    std::uint32_t const seed = static_cast<std::uint32_t>(t.next());
    std::vector<std::size_t> calls;
    for (std::size_t k = 0; k != iters; ++k) { calls.push_back(t.pick(5) == 0 ? t.range(0, 5) : 50 + t.range(0, 600)); }
    c.desc << vf::type_name<T>::get() << " run d=" << dims << " bins=" << bins << " alpha=" << vf::show(alpha) << " family=" << fam << " centre="
           << vf::show<long double>(centre) << " width=" << vf::show<long double>(width) << " calls=" << vf::show(calls) << " seed=" << seed;
    hep::vegas_pdf<T> current(dims, bins);
    bool point_ok = true;
    std::string point_msg;
    auto f = [&](hep::vegas_point<T> const& p) -> T {
        // every sampled point lies inside the bin reported for it (grid of this iteration = `current`)
        for (std::size_t j = 0; j != dims && point_ok; ++j)
        {
            if (!(p.bin()[j] < bins)) { point_ok = false; point_msg = "bin index out of range"; break; }
            T const l = current.bin_left(j, p.bin()[j]), r = current.bin_left(j, p.bin()[j] + 1);
            if (!(l <= p.point()[j] && p.point()[j] <= r)) { point_ok = false; point_msg = "point outside its bin"; }
        }
        long double v = 1;
        for (std::size_t j = 0; j != dims; ++j)
        {
            long double const x = p.point()[j];
            switch (fam)
            {
            case 0: { long double const z = (x - centre) / width; v *= std::exp(-z * z); break; }
            case 1: v *= std::pow(x + 1e-6L, -0.7L); break;
            case 2: v *= (x > centre) ? 1.0L : 0.0L; break;
            default: v *= (x < 0.5L) ? 0.0L : (1 + x); break;
            }
        }
        return static_cast<T>(v);
    };
    auto integrand = hep::make_integrand<T>(f, dims);
    auto chk = hep::make_vegas_chkpt<T>(bins, alpha, std::mt19937(seed));
    using Chk = decltype(chk);
    bool changed = false, zero_iter = false;
    for (std::size_t k = 0; k != iters; ++k)
    {
        chk.dimensions(dims);
        current = chk.pdf();
        check_partition(c, current, "grid used for an iteration");
        chk = hep::vegas(integrand, std::vector<std::size_t>{calls[k]}, chk, hep::callback<Chk>(hep::callback_mode::silent));
        VF_CHECK(c, point_ok, "C07:run-point", "iteration " << k << ": " << point_msg);
        auto const& res = chk.results().back();
        bool all_zero = true;
        for (auto d : res.adjustment_data()) { if (d != T(0)) { all_zero = false; } }
        hep::vegas_pdf<T> const next = chk.pdf();
        check_partition(c, next, "chkpt.pdf() after an iteration");
        bool same = true;
        for (std::size_t j = 0; j != dims; ++j) { for (std::size_t b = 0; b <= bins; ++b) { if (!vf::same_bits(next.bin_left(j, b), current.bin_left(j, b))) { same = false; } } }
        if (all_zero)
        {
            zero_iter = true;
            VF_CHECK(c, same, "C07:zero-iteration-moves-grid", "iteration " << k << " sampled only zeros but the grid changed");
        }
        if (!same) { changed = true; }
        for (std::size_t j = 0; j != dims; ++j) { check_dimension<T>(c, current, next, j, alpha, res.adjustment_data()); }
        ++c.sub;
    }
    if (zero_iter) { c.label("run-zero-iteration"); }
    c.label("run-level");
    c.nontrivial = changed && iters >= 2;
}

void run(vf::Ctx& c)
{
    std::size_t const layer = c.t.pick(8);
    vf::with_type(c.t, [&](auto tag) {
        using T = decltype(tag);
        if (layer == 6) { sampling_level<T>(c); }
        else if (layer == 7) { run_level<T>(c); }
        else { function_level<T>(c); }
    });
}

// probe of the known finding F4: data near the largest finite value
bool probe(std::string const& sig, std::string& what)
{
    if (sig != SIG_OVERFLOW) { what = "unknown signature"; return false; }
    // run in a child: before commit 34b2f8e this read out of bounds (sanitizer abort); now the dimension is left unrefined
    pid_t const pid = fork();
    if (pid == 0)
    {
        hep::vegas_pdf<double> pdf(1, 4);
        double const big = std::numeric_limits<double>::max();
        std::vector<double> data = {big, big, 1.0, 1.0};
        auto const r = hep::vegas_refine_pdf(pdf, 1.5, data);
        bool bad = false;
        for (std::size_t b = 0; b <= 4; ++b) { if (!std::isfinite(r.bin_left(0, b))) { bad = true; } }
        for (std::size_t b = 0; b != 4; ++b) { if (!(r.bin_left(0, b) <= r.bin_left(0, b + 1))) { bad = true; } }
        // three quarters of the importance sit in the first two bins: an equidistributing refinement must move
        // the boundaries; a grid that comes back unchanged has not been refined
        bool moved = false;
        for (std::size_t b = 0; b <= 4; ++b) { if (r.bin_left(0, b) != pdf.bin_left(0, b)) { moved = true; } }
        _exit((bad || !moved) ? 1 : 0);
    }
    int status = 0;
    waitpid(pid, &status, 0);
    bool const fails = !(WIFEXITED(status) && WEXITSTATUS(status) == 0);
    what = "double, 4 uniform bins, alpha 1.5, data {max, max, 1, 1}";
    return fails;
}

} // namespace

vf::Property const vf::property = {"C07", "", run, nullptr, probe};
