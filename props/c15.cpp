// C15 - rolling a checkpoint back to iteration k reproduces the run that stopped after k.
// Domain: histories of run(calls...), reload (serialise + deserialise), rollback(k), decoded with a
// model so that every operation is applicable; integrator x engine (all nine) x configuration.
// After every operation all k in 0..n+1 are enumerated on copies (n <= 6).
// Oracle (model-based): the model is the list of calls of the iterations currently in the
// checkpoint; the text of the system under test equals the text after the corresponding prefix of
// ONE fresh uninterrupted run over the model list (texts of all prefixes recorded by a callback).
// The numeric type is fixed per translation unit (-DVERIF_T=...).
#include "../lib/runners.hpp"
#include "../lib/harness.hpp"

#include <map>

#ifndef VERIF_T
#define VERIF_T double
#endif

namespace
{

using T = VERIF_T;

std::string first_difference(std::string const& a, std::string const& b)
{
    std::istringstream ia(a), ib(b);
    std::string la, lb;
    std::size_t line = 0;
    while (true)
    {
        bool const ga = static_cast<bool>(std::getline(ia, la)), gb = static_cast<bool>(std::getline(ib, lb));
        ++line;
        if (!ga && !gb) { return "no difference"; }
        if (ga != gb || la != lb)
        {
            std::ostringstream o;
            o << "line " << line << ": expected '" << (ga ? la.substr(0, 140) : std::string("<end>")) << "' got '"
              << (gb ? lb.substr(0, 140) : std::string("<end>")) << "'";
            return o.str();
        }
    }
}

template <typename R>
struct Machine
{
    using Chk = typename R::Chk;
    vf::RunCfg<T> const& cfg;
    std::map<std::vector<std::size_t>, std::vector<std::string>> cache;

    // texts after 0, 1, ..., |L| iterations of a fresh uninterrupted run over L
    std::vector<std::string> const& prefix_texts(std::vector<std::size_t> const& L)
    {
        auto it = cache.find(L);
        if (it != cache.end()) { return it->second; }
        std::vector<std::string> texts;
        Chk const start = R::fresh(cfg);
        texts.push_back(vf::text_of(start));
        auto cb = [&texts](Chk const& k) { texts.push_back(vf::text_of(k)); return true; };
        if (!L.empty()) { (void) R::run(cfg, start, L, cb); }
        return cache.emplace(L, texts).first->second;
    }
};

template <typename R>
void run_with(vf::Ctx& c, vf::RunCfg<T> const& cfg, char const* engine_name)
{
    using Chk = typename R::Chk;
    vf::Tape& t = c.t;
    Machine<R> m{cfg, {}};
    Chk sut = R::fresh(cfg);
    std::vector<std::size_t> model;
    std::size_t const nops = 2 + t.pick(7);
    c.desc << vf::type_name<T>::get() << ' ' << engine_name << ' ' << cfg.describe() << " history=";
    bool reloaded_since_run = false, interesting = false;
    bool saw_inner_rollback = false, saw_reload_before_rollback = false, saw_rollback0_user = false;
    auto silent = [](Chk const&) { return true; };

    auto check_state = [&](char const* after) {
        std::vector<std::string> const& texts = m.prefix_texts(model);
        std::string const got = vf::text_of(sut);
        VF_CHECK(c, sut.results().size() == model.size(), "C15:result-count", after << ": checkpoint holds " << sut.results().size()
            << " results, model " << model.size());
        VF_CHECK(c, got == texts.back(), "C15:state-differs", after << ": checkpoint differs from a fresh run over " << vf::show(model) << ": "
            << first_difference(texts.back(), got));
        // all k on copies
        std::size_t const n = model.size();
        if (n <= 6)
        {
            if (n >= 2) { saw_inner_rollback = true; }
            if (n >= 1 && reloaded_since_run) { saw_reload_before_rollback = true; }
            if (n >= 1 && (cfg.user_grid || cfg.user_weights)) { saw_rollback0_user = true; }
            for (std::size_t k = 0; k <= n + 1; ++k)
            {
                Chk copy = sut;
                ++c.sub;
                if (k > n)
                {
                    bool thrown = false;
                    try { copy.rollback(k); } catch (std::out_of_range const&) { thrown = true; }
                    VF_CHECK(c, thrown, "C15:too-large-accepted", after << ": rollback(" << k << ") of a checkpoint with " << n << " results was accepted");
                    VF_CHECK(c, vf::text_of(copy) == got, "C15:rejected-rollback-changed-state", after << ": rejected rollback(" << k << ") changed the checkpoint");
                    // something clearly too large as well
                    Chk copy2 = sut;
                    thrown = false;
                    try { copy2.rollback(n + 18); } catch (std::out_of_range const&) { thrown = true; }
                    VF_CHECK(c, thrown, "C15:too-large-accepted", after << ": rollback far beyond the number of results was accepted");
                    // values that only differ from a valid k in the upper half of a 64-bit size_t, and the largest ones
                    for (std::size_t big : {(std::size_t(1) << 32), (std::size_t(1) << 32) + n, (std::size_t(3) << 32) + (n ? n - 1 : 0), ~std::size_t(0), ~std::size_t(0) - 1})
                    {
                        Chk copy3 = sut;
                        thrown = false;
                        try { copy3.rollback(big); } catch (std::out_of_range const&) { thrown = true; }
                        VF_CHECK(c, thrown, "C15:too-large-accepted", after << ": rollback(" << big << ") of a checkpoint with " << n << " results was accepted");
                        VF_CHECK(c, vf::text_of(copy3) == got, "C15:rejected-rollback-changed-state", after << ": rejected rollback(" << big << ") changed the checkpoint");
                    }
                    continue;
                }
                copy.rollback(k);
                std::string const rolled = vf::text_of(copy);
                VF_CHECK(c, copy.results().size() == k, "C15:rollback-count", after << ": rollback(" << k << ") left " << copy.results().size() << " results");
                VF_CHECK(c, rolled == texts[k], "C15:rollback-differs", after << ": rollback(" << k << ") of " << n << " results differs from the run that stopped after "
                    << k << ": " << first_difference(texts[k], rolled));
                if (k == n) { VF_CHECK(c, rolled == got, "C15:rollback-n-changes", after << ": rollback(n) changed the checkpoint"); }
                // resuming reproduces iterations k+1.. exactly
                if (k < n)
                {
                    std::vector<std::size_t> const rest(model.begin() + k, model.end());
                    Chk const resumed = R::run(cfg, copy, rest, silent);
                    std::string const rt = vf::text_of(resumed);
                    VF_CHECK(c, rt == got, "C15:resume-differs", after << ": rollback(" << k << ") + resume differs from the original: " << first_difference(got, rt));
                }
            }
        }
    };

    check_state("start");
    for (std::size_t op = 0; op != nops; ++op)
    {
        std::size_t kind = t.pick(4);
        if (model.size() >= 7 && kind <= 1) { kind = 3; }
        if (kind <= 1)
        {
            std::size_t const cnt = 1 + t.pick(3);
            std::vector<std::size_t> calls;
            for (std::size_t i = 0; i != cnt; ++i) { calls.push_back(t.pick(6) == 0 ? t.range(0, 2) : 2 + t.range(0, 120)); }
            c.desc << "run" << vf::show(calls) << ' ';
            sut = R::run(cfg, sut, calls, silent);
            model.insert(model.end(), calls.begin(), calls.end());
            reloaded_since_run = false;
            check_state("run");
        }
        else if (kind == 2)
        {
            c.desc << "reload ";
            std::istringstream in(vf::text_of(sut));
            sut = R::load(in);
            VF_CHECK(c, !in.fail(), "C15:reload-failed", "reading the checkpoint back failed");
            reloaded_since_run = true;
            check_state("reload");
        }
        else
        {
            std::size_t const n = model.size();
            std::size_t const k = t.range(0, n + 1);
            c.desc << "rollback(" << k << ") ";
            if (k > n)
            {
                bool thrown = false;
                try { sut.rollback(k); } catch (std::out_of_range const&) { thrown = true; }
                VF_CHECK(c, thrown, "C15:too-large-accepted", "rollback(" << k << ") of a checkpoint with " << n << " results was accepted");
            }
            else
            {
                sut.rollback(k);
                model.resize(k);
                if (k > 0 && k < n) { saw_inner_rollback = true; }
                if (reloaded_since_run && k < n) { saw_reload_before_rollback = true; }
                if (k == 0 && n > 0 && (cfg.user_grid || cfg.user_weights)) { saw_rollback0_user = true; }
            }
            check_state("rollback");
        }
    }
    interesting = saw_inner_rollback || saw_reload_before_rollback || saw_rollback0_user;
    if (saw_inner_rollback) { c.label("rollback-inner-k"); }
    if (saw_reload_before_rollback) { c.label("reload-before-rollback"); }
    if (saw_rollback0_user) { c.label("rollback0-user-state"); }
    c.label(std::string("engine:") + engine_name);
    c.label(R::kind == vf::PLAIN ? "PLAIN" : R::kind == vf::VEGAS ? "VEGAS" : "MULTI");
    c.nontrivial = interesting;
}

void run(vf::Ctx& c)
{
    vf::RunCfg<T> const cfg = vf::gen_cfg<T>(c.t);
    vf::with_engine(c.t, [&](auto eng, char const* name) {
        using E = decltype(eng);
        switch (cfg.kind)
        {
        case vf::PLAIN: run_with<vf::Plain<T, E>>(c, cfg, name); break;
        case vf::VEGAS: run_with<vf::Vegas<T, E>>(c, cfg, name); break;
        default: run_with<vf::Multi<T, E>>(c, cfg, name); break;
        }
    });
}

} // namespace

vf::Property const vf::property = {"C15", "", run, nullptr, nullptr};
