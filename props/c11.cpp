// C11 - a distribution bin is the integral of the integrand restricted to that bin.
// (A) placement: dictated coordinates (interior, every bin edge and its neighbours, x_max, just
//     below x_min, far outside incl. quotients >= 2^63 / 2^64, +-inf, NaN) one call at a time;
//     the value must land in the bin of a long double floor model (either neighbour within one
//     rounding error of an edge) or in no bin; mid-points lie inside their bins.
// (B) differential: a generated run with distributions vs. separate runs of f * 1[bin] / area with
//     the same random numbers: per-bin sums, value, error and calls agree; bins x areas add up.
#include "hep/mc.hpp"

#include "../lib/gen.hpp"
#include "../lib/pwc.hpp"
#include "../lib/harness.hpp"

#include <random>

namespace
{

template <typename T>
struct Axis
{
    std::size_t bins = 1;
    T min = T(0), size = T(1);
};

// set of admissible bin indices of coordinate x on an axis: -1 stands for "no bin"
template <typename T>
void admissible(Axis<T> const& a, T x, std::vector<long>& out)
{
    out.clear();
    if (std::isnan(x)) { out.push_back(-1); return; }
    long double const eps = vf::eps<T>();
    long double const xl = x, mn = a.min, sz = a.size;
    if (std::isinf(x)) { out.push_back(-1); return; }
    long double const delta = 4 * eps * (std::fabs(xl) + std::fabs(mn)) + 4 * static_cast<long double>(std::numeric_limits<T>::denorm_min());
    long double const qlo = (xl - delta - mn) / sz, qhi = (xl + delta - mn) / sz;
    long double const flo = std::floor(qlo), fhi = std::floor(qhi);
    auto push = [&](long double f) {
        long const k = (f < 0 || f >= static_cast<long double>(a.bins)) ? -1 : static_cast<long>(f);
        if (std::find(out.begin(), out.end(), k) == out.end()) { out.push_back(k); }
    };
    push(flo);
    push(fhi);
    if (fhi - flo > 1 && fhi - flo < 8) { for (long double f = flo + 1; f < fhi; f += 1) { push(f); } }
}

template <typename T>
struct Spec
{
    bool two_d = false;
    Axis<T> x, y;
    hep::distribution_parameters<T> params() const
    {
        // build through the public constructor: it stores min and (max - min) / bins
        if (two_d) { return hep::distribution_parameters<T>(x.bins, y.bins, x.min, xmax, y.min, ymax, "c11"); }
        return hep::distribution_parameters<T>(x.bins, x.min, xmax, "c11");
    }
    T xmax = T(1), ymax = T(1);
};

template <typename T>
void gen_axis(vf::Tape& t, Axis<T>& a, T& maxv)
{
    a.bins = 1 + t.pick(12);
    long double lo, width;
    switch (t.pick(7))
    {
    case 0: lo = 0; width = 1; break;
    case 1: lo = -1; width = 2; break;
    case 2: lo = -3.5L; width = 0.25L * (1 + t.range(0, 40)); break;
    // tiny / huge: 1 / area^2 must stay representable in T (float: 10^-8 per axis, else 10^-30)
    case 3: { long double const s = std::is_same<T, float>::value ? 1e-8L : 1e-30L; lo = s * t.unit(); width = s * (1 + t.unit()); break; }
    case 4: { long double const s = std::is_same<T, float>::value ? 1e8L : 1e30L; lo = -s * t.unit(); width = s * (1 + t.unit()); break; }
    // narrow range far from 0: a bin stays >= 2000 ulps of the coordinates wide, so that generated interior
    // points are not all within a rounding error of an edge
    case 5: lo = 100 + t.unit(); width = std::max<long double>(1e-3L, 101 * vf::eps<T>() * 2e4L * 12) * (1 + t.unit()); break;
    default: lo = (t.unit() - 0.5L) * 20; width = 0.1L + 10 * t.unit(); break;
    }
    a.min = static_cast<T>(lo);
    maxv = static_cast<T>(lo + width);
    if (!(maxv > a.min)) { maxv = a.min + T(1); }
}

template <typename T>
std::vector<T> candidates(vf::Tape& t, Axis<T> const& a, T maxv)
{
    std::vector<T> v;
    T const inf = std::numeric_limits<T>::infinity();
    for (std::size_t k = 0; k <= a.bins; ++k)
    {
        T const e = a.min + T(k) * a.size;
        v.push_back(e);
        v.push_back(std::nextafter(e, -inf));
        v.push_back(std::nextafter(e, inf));
        v.push_back(e + T(0.5) * a.size); // interior (and just outside for k = bins)
    }
    v.push_back(maxv);
    v.push_back(std::nextafter(a.min, -inf));
    v.push_back(a.min - a.size);
    v.push_back(a.min - T(0.5) * a.size);
    v.push_back(a.min + a.size * T(a.bins) * T(3));
    // far outside: quotients around 2^31, 2^32, 2^63, 2^64 and beyond
    for (int e : {31, 32, 53, 63, 64, 65, 100})
    {
        T const far = a.min + a.size * static_cast<T>(std::ldexp(1.0L, e));
        if (std::isfinite(far)) { v.push_back(far); v.push_back(std::nextafter(far, inf)); v.push_back(a.min - a.size * static_cast<T>(std::ldexp(1.0L, e))); }
    }
    v.push_back(std::numeric_limits<T>::max());
    v.push_back(std::numeric_limits<T>::lowest());
    v.push_back(inf);
    v.push_back(-inf);
    v.push_back(std::numeric_limits<T>::quiet_NaN());
    for (int k = 0; k != 6; ++k) { v.push_back(a.min + static_cast<T>(t.unit() * 1.4 - 0.2) * a.size * T(a.bins)); }
    return v;
}

template <typename T>
struct OneShot
{
    std::vector<Spec<T>> const* specs;
    std::vector<T> xs, ys; // per distribution
    T value;
    T operator()(hep::mc_point<T> const&, hep::projector<T>& proj) const
    {
        for (std::size_t d = 0; d != specs->size(); ++d)
        {
            if ((*specs)[d].two_d) { proj.add(d, xs[d], ys[d], value); }
            else { proj.add(d, xs[d], value); }
        }
        return value;
    }
};

template <typename T>
std::string axis_str(Axis<T> const& a)
{
    std::ostringstream o;
    o << a.bins << " bins from " << vf::show(a.min) << " size " << vf::show(a.size);
    return o.str();
}

template <typename T>
void placement(vf::Ctx& c, std::vector<Spec<T>>& specs, std::vector<hep::distribution_parameters<T>> const& params, bool& edge_or_outside,
    std::size_t& filled_bins)
{
    vf::Tape& t = c.t;
    std::vector<std::vector<T>> cx(specs.size()), cy(specs.size());
    std::size_t longest = 0;
    for (std::size_t d = 0; d != specs.size(); ++d)
    {
        cx[d] = candidates<T>(t, specs[d].x, specs[d].xmax);
        cy[d] = specs[d].two_d ? candidates<T>(t, specs[d].y, specs[d].ymax) : std::vector<T>{T(0)};
        longest = std::max(longest, std::max(cx[d].size(), cy[d].size()));
    }
    std::mt19937 eng(7);
    std::uint64_t const ps = t.stream_seed();
    std::vector<std::vector<bool>> seen(specs.size());
    for (std::size_t d = 0; d != specs.size(); ++d) { seen[d].assign(specs[d].x.bins * specs[d].y.bins, false); }
    std::size_t const rounds = longest * 2;
    for (std::size_t r = 0; r != rounds; ++r)
    {
        OneShot<T> fn;
        fn.specs = &specs;
        fn.value = (vf::mix2(ps, r) & 1) ? T(-1.5) : T(2);
        for (std::size_t d = 0; d != specs.size(); ++d)
        {
            // first pass: x candidate r with an interior y; second pass: y candidates with generated x
            bool const first = r < longest;
            std::size_t const ix = first ? r % cx[d].size() : vf::mix2(ps, 3 * r + d) % cx[d].size();
            std::size_t const iy = first ? (cy[d].size() > 3 ? 3 : 0) : (r - longest) % cy[d].size();
            fn.xs.push_back(cx[d][ix]);
            fn.ys.push_back(cy[d][iy]);
        }
        hep::integrand<T, OneShot<T>, true> ig(fn, 1, params);
        hep::plain_result<T> const res = hep::plain_iteration(ig, 1, eng);
        ++c.sub;
        for (std::size_t d = 0; d != specs.size(); ++d)
        {
            Spec<T> const& s = specs[d];
            auto const& bins = res.distributions()[d].results();
            VF_CHECK(c, bins.size() == s.x.bins * s.y.bins, "C11:bin-count", "distribution " << d << " has " << bins.size() << " bins");
            long hit = -1;
            std::size_t hits = 0;
            for (std::size_t b = 0; b != bins.size(); ++b)
            {
                VF_CHECK(c, bins[b].calls() == 1, "C11:bin-calls", "bin " << b << " reports " << bins[b].calls() << " calls for an iteration of 1 call");
                if (bins[b].non_zero_calls() != 0 || bins[b].sum() != T(0) || bins[b].sum_of_squares() != T(0)) { hit = static_cast<long>(b); ++hits; }
            }
            VF_CHECK(c, hits <= 1, "C11:several-bins", "one value was added to " << hits << " bins of distribution " << d);
            std::vector<long> ax, ay;
            admissible<T>(s.x, fn.xs[d], ax);
            if (s.two_d) { admissible<T>(s.y, fn.ys[d], ay); } else { ay.assign(1, 0); }
            bool ok = false;
            for (long kx : ax) { for (long ky : ay) {
                long const idx = (kx < 0 || ky < 0) ? -1 : ky * static_cast<long>(s.x.bins) + kx; // x fastest, then y
                if (idx == hit) { ok = true; }
            } }
            std::ostringstream where;
            where << "distribution " << d << " (x: " << axis_str(s.x);
            if (s.two_d) { where << "; y: " << axis_str(s.y); }
            where << ") coordinate x=" << vf::show(fn.xs[d]);
            if (s.two_d) { where << " y=" << vf::show(fn.ys[d]); }
            VF_CHECK(c, ok, hit < 0 ? "C11:value-lost" : "C11:wrong-bin", where.str() << " landed in " << (hit < 0 ? std::string("no bin") : "bin " + std::to_string(hit))
                << ", model allows x-bin " << ax[0] << (ax.size() > 1 ? "/" + std::to_string(ax[1]) : std::string()) << " y-bin " << ay[0]
                << (ay.size() > 1 ? "/" + std::to_string(ay[1]) : std::string()) << " (-1 = none)");
            if (hit >= 0)
            {
                // the value arrives scaled by 1 / area
                long double const area = static_cast<long double>(s.x.size) * (s.two_d ? static_cast<long double>(s.y.size) : 1.0L);
                long double const want = static_cast<long double>(fn.value) / area;
                VF_CHECK(c, std::fabs(static_cast<long double>(bins[hit].sum()) - want) <= 8 * vf::eps<T>() * std::fabs(want), "C11:bin-scale",
                    where.str() << ": bin sum " << vf::show(bins[hit].sum()) << " expected value / area = " << vf::show<long double>(want));
                if (!seen[d][hit]) { seen[d][hit] = true; ++filled_bins; }
            }
            if (ax.size() > 1 || ax[0] < 0 || ay.size() > 1 || ay[0] < 0) { edge_or_outside = true; }
        }
    }
    // mid-points lie inside their bins, in the same order as the bins
    for (std::size_t d = 0; d != specs.size(); ++d)
    {
        Spec<T> const& s = specs[d];
        hep::distribution_result<T> dr(params[d], std::vector<hep::mc_result<T>>(s.x.bins * s.y.bins, hep::mc_result<T>(1, 0, 0, T(), T())));
        std::vector<T> const mx = hep::mid_points_x(dr), my = hep::mid_points_y(dr);
        VF_CHECK(c, mx.size() == s.x.bins * s.y.bins && my.size() == mx.size(), "C11:midpoint-count", "mid point count");
        for (std::size_t idx = 0; idx != mx.size(); ++idx)
        {
            std::size_t const kx = idx % s.x.bins, ky = idx / s.x.bins;
            long double const tolx = 4 * s.x.bins * vf::eps<T>() * (std::fabs(static_cast<long double>(s.x.min)) + s.x.bins * static_cast<long double>(s.x.size));
            long double const lx = static_cast<long double>(s.x.min) + kx * static_cast<long double>(s.x.size);
            VF_CHECK(c, std::fabs(static_cast<long double>(mx[idx]) - (lx + 0.5L * s.x.size)) <= tolx, "C11:midpoint-x", "mid_points_x[" << idx << "] = " << vf::show(mx[idx])
                << " is not the centre of x-bin " << kx << " = " << vf::show<long double>(lx + 0.5L * s.x.size));
            long double const toly = 4 * s.y.bins * vf::eps<T>() * (std::fabs(static_cast<long double>(s.y.min)) + s.y.bins * static_cast<long double>(s.y.size));
            long double const ly = static_cast<long double>(s.y.min) + ky * static_cast<long double>(s.y.size);
            VF_CHECK(c, std::fabs(static_cast<long double>(my[idx]) - (ly + 0.5L * s.y.size)) <= toly, "C11:midpoint-y", "mid_points_y[" << idx << "] = " << vf::show(my[idx])
                << " is not the centre of y-bin " << ky << " = " << vf::show<long double>(ly + 0.5L * s.y.size));
        }
    }
}

// (B) differential against separate integrations
template <typename T>
struct ProjFn
{
    std::vector<Spec<T>> const* specs;
    int restrict_dist = -1; // >= 0: plain integrand f * 1[bin] / area
    long restrict_bin = -1;
    std::size_t dims = 1;
    bool inside_only = false; // f * 1[inside range of distribution restrict_dist]

    static std::vector<T> const& coords(hep::multi_channel_point<T> const& p) { return p.coordinates(); }
    static std::vector<T> const& coords(hep::mc_point<T> const& p) { return p.point(); }

    int family = 0;
    T f(std::vector<T> const& x) const
    {
        if (family == 1)
        {
            // exponential fall-off: the tail bins are many orders of magnitude below the total
            using std::exp;
            return exp(-(std::is_same<T, float>::value ? T(20) : T(45)) * x[0]);
        }
        if (family == 2)
        {
            // values in the subnormal range of T (a tiny cross section): small integer multiples of denorm_min
            using std::floor;
            return (x[0] < T(0.2)) ? T(0) : (T(1) + floor(x[0] * T(1000))) * std::numeric_limits<T>::denorm_min();
        }
        return (x[0] < T(0.2)) ? T(0) : (T(1) + x[0] - T(1.7) * x[dims - 1]);
    }
    // projected coordinates: affine in the point so that a good part falls outside the range
    // keep the projected coordinate at least 5 % of a bin away from every edge: within a rounding error of an edge
    // either neighbour is correct, which a differential test cannot use (edges are the subject of part A)
    static T away(Axis<T> const& a, long double q)
    {
        long double const fr = q - std::floor(q);
        if (fr < 0.05L) { q += 0.1L; } else if (fr > 0.95L) { q -= 0.1L; }
        return static_cast<T>(static_cast<long double>(a.min) + q * static_cast<long double>(a.size));
    }
    T px(Spec<T> const& s, std::vector<T> const& x) const { return away(s.x, (static_cast<long double>(x[0]) * 1.3L - 0.15L) * s.x.bins); }
    T py(Spec<T> const& s, std::vector<T> const& x) const { return away(s.y, (static_cast<long double>(x[dims - 1]) * 1.2L - 0.1L) * s.y.bins); }

    long bin_of(Spec<T> const& s, std::vector<T> const& x) const
    {
        long double const qx = (static_cast<long double>(px(s, x)) - s.x.min) / s.x.size;
        if (qx < 0 || qx >= s.x.bins) { return -1; }
        long kx = static_cast<long>(std::floor(qx)), ky = 0;
        if (s.two_d)
        {
            long double const qy = (static_cast<long double>(py(s, x)) - s.y.min) / s.y.size;
            if (qy < 0 || qy >= s.y.bins) { return -1; }
            ky = static_cast<long>(std::floor(qy));
        }
        return ky * static_cast<long>(s.x.bins) + kx;
    }

    template <typename P>
    T operator()(P const& p, hep::projector<T>& proj) const
    {
        std::vector<T> const& x = coords(p);
        T const v = f(x);
        for (std::size_t d = 0; d != specs->size(); ++d)
        {
            Spec<T> const& s = (*specs)[d];
            if (s.two_d) { proj.add(d, px(s, x), py(s, x), v); } else { proj.add(d, px(s, x), v); }
        }
        return v;
    }
    template <typename P>
    T operator()(P const& p) const
    {
        std::vector<T> const& x = coords(p);
        Spec<T> const& s = (*specs)[restrict_dist];
        long const b = bin_of(s, x);
        if (inside_only) { return b >= 0 ? f(x) : T(0); }
        if (b != restrict_bin) { return T(0); }
        T const area = s.x.size * (s.two_d ? s.y.size : T(1));
        return f(x) / area;
    }
};

template <typename T>
void differential(vf::Ctx& c, std::vector<Spec<T>> const& specs, std::vector<hep::distribution_parameters<T>> const& params)
{
    vf::Tape& t = c.t;
    int const integrator = static_cast<int>(t.pick(3));
    std::size_t const N = 20 + t.range(0, 400);
    std::uint32_t const seed = 1 + static_cast<std::uint32_t>(t.next() % 100000u);
    ProjFn<T> fn;
    fn.specs = &specs;
    fn.family = static_cast<int>(t.pick(3) == 0);
    c.desc << " | differential " << (integrator == 0 ? "PLAIN" : integrator == 1 ? "VEGAS" : "MULTI") << " N=" << N << " seed=" << seed;
    // run helpers: with distributions, and the plain variant with the same engine
    std::size_t dims = 1 + t.pick(3);
    hep::vegas_pdf<T> pdf(dims, 2 + t.pick(10));
    for (std::size_t d = 0; d != dims; ++d) { for (std::size_t b = 1; b < pdf.bins(); ++b) { pdf.set_bin_left(d, b, static_cast<T>(std::pow(static_cast<long double>(b) / pdf.bins(), 1.7L))); } }
    std::size_t const channels = 1 + t.pick(3);
    vf::PwcFamily<T> fam = vf::gen_pwc<T>(t, 2, channels, 3);
    std::vector<T> w(channels, T(1) / T(channels));
    if (integrator == 2) { dims = fam.dims; }
    // a region in which the channel map reports an infinite jacobian: f*w is not finite there, such points
    // contribute neither to the integral nor to any bin (in the run with distributions and in the separate runs alike)
    T const poison_above = (integrator == 2 && t.pick(3) == 0) ? static_cast<T>(0.5 + 0.45 * t.unit()) : T(2);
    if (poison_above < T(2)) { c.label("non-finite-weight-region"); c.desc << " jacobian=inf for x0>" << vf::show(poison_above); }
    if (t.pick(6) == 1) { fn.family = 2; c.label("subnormal-values"); c.desc << " subnormal-values"; }
    if (fn.family == 1) { c.label("steep-integrand"); }
    fn.dims = dims;
    auto run_dist = [&]() -> hep::plain_result<T> {
        std::mt19937 eng(seed);
        if (integrator == 0) { hep::integrand<T, ProjFn<T>, true> ig(fn, dims, params); return hep::plain_iteration(ig, N, eng); }
        if (integrator == 1) { hep::integrand<T, ProjFn<T>, true> ig(fn, dims, params); return hep::vegas_iteration(ig, N, pdf, eng); }
        hep::multi_channel_integrand<T, ProjFn<T>, vf::PwcMap<T>, true> ig(fn, dims, vf::PwcMap<T>{&fam, nullptr, nullptr, poison_above}, fam.map_dims, channels, params);
        return hep::multi_channel_iteration(ig, N, w, eng);
    };
    auto run_plain = [&](ProjFn<T> const& g) -> hep::plain_result<T> {
        std::mt19937 eng(seed);
        std::vector<hep::distribution_parameters<T>> none;
        if (integrator == 0) { hep::integrand<T, ProjFn<T>, false> ig(g, dims, none); return hep::plain_iteration(ig, N, eng); }
        if (integrator == 1) { hep::integrand<T, ProjFn<T>, false> ig(g, dims, none); return hep::vegas_iteration(ig, N, pdf, eng); }
        hep::multi_channel_integrand<T, ProjFn<T>, vf::PwcMap<T>, false> ig(g, dims, vf::PwcMap<T>{&fam, nullptr, nullptr, poison_above}, fam.map_dims, channels, none);
        return hep::multi_channel_iteration(ig, N, w, eng);
    };
    hep::plain_result<T> const full = run_dist();
    long double const eps = vf::eps<T>();
    for (std::size_t d = 0; d != specs.size(); ++d)
    {
        Spec<T> const& s = specs[d];
        long double const area = static_cast<long double>(s.x.size) * (s.two_d ? static_cast<long double>(s.y.size) : 1.0L);
        auto const& bins = full.distributions()[d].results();
        long double total = 0, total_abs = 0;
        for (std::size_t b = 0; b != bins.size(); ++b)
        {
            ProjFn<T> g = fn;
            g.restrict_dist = static_cast<int>(d);
            g.restrict_bin = static_cast<long>(b);
            hep::plain_result<T> const sep = run_plain(g);
            ++c.sub;
            VF_CHECK(c, bins[b].calls() == N, "C11:bin-calls", "bin " << b << " of distribution " << d << " reports " << bins[b].calls() << " calls, the iteration made " << N);
            VF_CHECK(c, bins[b].non_zero_calls() <= N && bins[b].finite_calls() <= bins[b].non_zero_calls(), "C11:bin-counters", "bin counters");
            // sums: the separate run adds f*w/area, the bin adds f*w and scales by 1/area afterwards
            long double const scale_abs = std::sqrt(static_cast<long double>(sep.sum_of_squares()) * N) + std::fabs(static_cast<long double>(sep.sum()));
            // (absolute term: every term is rounded to the subnormal grid once; the bin is divided by the area afterwards)
            long double const tol_sum = 16 * eps * scale_abs + 4 * N * static_cast<long double>(std::numeric_limits<T>::denorm_min()) * std::max(1.0L, 1.0L / area) + 1e-300L;
            long double const err_sum = std::fabs(static_cast<long double>(bins[b].sum()) - static_cast<long double>(sep.sum()));
            c.note_margin(tol_sum, err_sum);
            VF_CHECK(c, err_sum <= tol_sum, "C11:bin-vs-separate-sum", "distribution " << d << " bin " << b << ": sum " << vf::show(bins[b].sum())
                << " but integrating f*1[bin]/area with the same random numbers gives " << vf::show(sep.sum()));
            // sums of squares in the denormal range of T (tiny values, huge bin areas) carry absolute, not relative, errors
            long double const dmin = static_cast<long double>(std::numeric_limits<T>::denorm_min());
            bool const denormal_sq = static_cast<long double>(sep.sum_of_squares()) < static_cast<long double>(std::numeric_limits<T>::min()) * std::ldexp(1.0L, std::numeric_limits<T>::digits);
            long double const tol_sq = 16 * eps * static_cast<long double>(sep.sum_of_squares()) + 4 * N * dmin + 1e-300L;
            VF_CHECK(c, std::fabs(static_cast<long double>(bins[b].sum_of_squares()) - static_cast<long double>(sep.sum_of_squares())) <= tol_sq,
                "C11:bin-vs-separate-sumsq", "distribution " << d << " bin " << b << ": sum of squares " << vf::show(bins[b].sum_of_squares())
                << " vs " << vf::show(sep.sum_of_squares()));
            long double const tolv = tol_sum / N;
            VF_CHECK(c, std::fabs(static_cast<long double>(bins[b].value()) - static_cast<long double>(sep.value())) <= tolv, "C11:bin-vs-separate-value",
                "distribution " << d << " bin " << b << ": value " << vf::show(bins[b].value()) << " vs " << vf::show(sep.value()));
            // error: same formula on nearly equal sums; compare variances with the conditioning of the subtraction
            long double const a = static_cast<long double>(sep.sum_of_squares()) / N, e2 = static_cast<long double>(sep.value()) * sep.value();
            long double const tolvar = 64 * eps * (a + e2) / (N - 1.0L) + 1e-300L;
            VF_CHECK(c, denormal_sq || std::fabs(static_cast<long double>(bins[b].variance()) - static_cast<long double>(sep.variance())) <= tolvar, "C11:bin-vs-separate-error",
                "distribution " << d << " bin " << b << ": variance " << vf::show(bins[b].variance()) << " vs " << vf::show(sep.variance()));
            total += static_cast<long double>(bins[b].sum()) * area;
            total_abs += scale_abs * area;
        }
        // bins x areas add up to the integral of everything projected inside the range
        ProjFn<T> g = fn;
        g.restrict_dist = static_cast<int>(d);
        g.inside_only = true;
        hep::plain_result<T> const inside = run_plain(g);
        long double const tol = 32 * eps * (total_abs + std::fabs(static_cast<long double>(inside.sum())))
            + 4 * (N + bins.size()) * (area + 1.0L) * static_cast<long double>(std::numeric_limits<T>::denorm_min()) + 1e-300L;
        VF_CHECK(c, std::fabs(total - static_cast<long double>(inside.sum())) <= tol, "C11:bins-do-not-add-up", "distribution " << d << ": bins x areas sum to "
            << vf::show<long double>(total) << ", the integrand restricted to the range sums to " << vf::show(inside.sum()));
    }
}

template <typename T>
void run_t(vf::Ctx& c)
{
    vf::Tape& t = c.t;
    std::size_t const nd = 1 + t.pick(3);
    std::vector<Spec<T>> specs(nd);
    std::vector<hep::distribution_parameters<T>> params;
    c.desc << vf::type_name<T>::get() << " dists:";
    for (auto& s : specs)
    {
        s.two_d = t.pick(3) == 2;
        gen_axis<T>(t, s.x, s.xmax);
        if (s.two_d) { gen_axis<T>(t, s.y, s.ymax); } else { s.y.bins = 1; s.y.min = T(0); s.ymax = T(1); }
        params.push_back(s.params());
        // the stored bin sizes define the edges
        s.x.size = params.back().bin_size_x();
        s.y.size = params.back().bin_size_y();
        s.x.min = params.back().x_min();
        s.y.min = params.back().y_min();
        c.desc << " [" << (s.two_d ? "2d " : "1d ") << axis_str(s.x);
        if (s.two_d) { c.desc << " x " << axis_str(s.y); }
        c.desc << "]";
    }
    bool edge_or_outside = false;
    std::size_t filled = 0;
    placement<T>(c, specs, params, edge_or_outside, filled);
    if (t.pick(3) != 0) { differential<T>(c, specs, params); c.label("differential"); }
    for (auto const& s : specs) { if (s.two_d) { c.label("2d"); break; } }
    if (nd >= 2) { c.label("several-distributions"); }
    c.nontrivial = edge_or_outside && filled >= 2;
}

void run(vf::Ctx& c)
{
    vf::with_type(c.t, [&](auto tag) { run_t<decltype(tag)>(c); });
}

} // namespace

vf::Property const vf::property = {"C11", "", run, nullptr, nullptr};
