// C14 - long sums do not lose accuracy with the number of calls.
// Domain: adversarial value sequences (one large then very many small, alternating signs with
// cancellation, geometric decay, random magnitudes over 20 decades, sorted, equal) of length up to
// 10^5 (quick) / 10^7 (thorough), fed through PLAIN, VEGAS and multi-channel iterations and through
// 1-d / 2-d distribution bins. Oracle: exact (expansion) sum of the very values the library adds
// (v = f * w, recomputed by the same single multiplication) and the Kahan bound.
#include "hep/mc.hpp"

#include "../lib/exactsum.hpp"
#include "../lib/gen.hpp"
#include "../lib/pwc.hpp"
#include "../lib/harness.hpp"

#include <random>

namespace
{

template <typename T>
struct Pattern
{
    int kind = 0;
    T scale = T(1);
    std::uint64_t seed = 0;
    std::size_t n = 1;
    bool negate = false;
    bool interleave = false; // every other value is NaN / +inf / -inf (dropped by the library, must not disturb the sum of the others)

    T operator()(std::size_t i) const
    {
        if (interleave && i % 2 == 1)
        {
            return i % 6 == 1 ? std::numeric_limits<T>::quiet_NaN() : (i % 6 == 3 ? std::numeric_limits<T>::infinity() : -std::numeric_limits<T>::infinity());
        }
        long double v;
        long double const eps = vf::eps<T>();
        switch (kind)
        {
        case 0: v = 1; break;
        case 1: v = (i == 0) ? 1.0L : eps / 4 * (1 + 0.5L * vf::stream_unit(seed, i)); break;                 // one large, many small
        case 2: v = (i % 2 == 0) ? (1 + vf::stream_unit(seed, i / 2)) : -(1 + vf::stream_unit(seed, i / 2)) * (1 - 1e-3L); break; // cancellation
        case 3: v = std::exp2(-static_cast<long double>(i) * 40 / std::max<std::size_t>(n, 1)) ; break;           // geometric decay over 40 binades
        case 4: v = std::pow(10.0L, 20 * vf::stream_unit(seed, 2 * i) - 10) * ((vf::mix2(seed, 2 * i + 1) & 1) ? 1 : -1); break; // random magnitudes
        case 5: v = static_cast<long double>(i + 1) / n; break;                                                   // ascending
        case 6: v = static_cast<long double>(n - i) / n; break;                                                   // descending
        case 7: v = 0.1L; break;                                                                                  // equal, not representable
        case 8: v = (i % 3 == 0) ? 0.0L : eps / 3 * (i % 7 + 1) + ((i % 1000 == 1) ? 1.0L : 0.0L); break;     // zeros mixed in, rare large
        case 10:                                                                                                  // subnormal values of either sign (scale ignored)
        {
            T const r = static_cast<T>(1 + vf::mix2(seed, i) % 1000) * std::numeric_limits<T>::denorm_min() * ((vf::mix2(seed, i) >> 20 & 1) ? T(-1) : T(1));
            return negate ? -r : r;
        }
        default: v = std::pow(10.0L, 8 * vf::stream_unit(seed, i)); break;                                        // positive, 8 decades
        }
        T r = static_cast<T>(v) * scale;
        return negate ? -r : r;
    }
    char const* name() const
    {
        static char const* const names[] = {"ones", "one-large-many-small", "alternating-cancel", "geometric-decay", "random-magnitudes",
            "ascending", "descending", "equal-0.1", "zeros-and-rare-large", "positive-8-decades", "subnormal"};
        return names[kind];
    }
};

template <typename T>
struct DistSink
{
    std::size_t nbins = 0, bx = 1;
    int bin_mode = 0; // 0: everything into one bin, 1: round robin
    bool two_d = false;
    T xmin = T(0), xsize = T(1), ymin = T(0), ysize = T(1);
    T factor = T(1); // the value handed to this distribution is factor * f (different magnitudes in different distributions)
    std::vector<vf::ExactSum<T>> bins;
    std::vector<T> bin_naive;
};

template <typename T>
struct Sink
{
    Pattern<T> pat;
    std::size_t idx = 0;
    vf::ExactSum<T> total;
    T naive = T(0);
    std::vector<DistSink<T>> dists;
};

template <typename T>
struct Fn
{
    Sink<T>* s;

    template <typename P>
    T eval(P const& p, hep::projector<T>* proj) const
    {
        std::size_t const i = s->idx++;
        T const f = s->pat(i);
        if (f != T(0))
        {
            T const v = f * p.weight(); // the same single multiplication the accumulator performs
            if (std::isfinite(v)) { s->total.add(v); s->naive += v; }
        }
        if (proj)
        {
            for (std::size_t d = 0; d != s->dists.size(); ++d)
            {
                DistSink<T>& ds = s->dists[d];
                std::size_t const b = ds.bin_mode == 0 ? ds.nbins / 2 : i % ds.nbins;
                T const fv = ds.factor * f;
                // bin centre: safely inside the bin
                if (ds.two_d)
                {
                    std::size_t const ix = b % ds.bx, iy = b / ds.bx;
                    proj->add(d, ds.xmin + (T(ix) + T(0.5)) * ds.xsize, ds.ymin + (T(iy) + T(0.5)) * ds.ysize, fv);
                }
                else
                {
                    proj->add(d, ds.xmin + (T(b) + T(0.5)) * ds.xsize, fv);
                }
                T const v = fv * p.weight();
                if (std::isfinite(v)) { ds.bins[b].add(v); ds.bin_naive[b] += v; }
            }
        }
        return f;
    }
    template <typename P> T operator()(P const& p) const { return eval(p, nullptr); }
    template <typename P> T operator()(P const& p, hep::projector<T>& proj) const { return eval(p, &proj); }
};

template <typename T>
bool within(vf::Ctx& c, T reported, vf::ExactSum<T> const& exact, long double factor, std::size_t n, char const* sig, std::string const& what)
{
    long double const eps = vf::eps<T>();
    // (one unit in the last place of the subnormal range for the division by the bin size)
    long double const bound = (4 * eps + 4 * n * eps * eps) * exact.abs_sum() * factor + 2 * eps * std::fabs(exact.value() * factor) + std::numeric_limits<T>::denorm_min();
    long double const err = std::fabs(static_cast<long double>(reported) - exact.value() * factor);
    c.note_margin(bound, err);
    VF_CHECK(c, err <= bound, sig, what << ": reported " << vf::show(reported) << ", exact " << vf::show<long double>(exact.value() * factor)
        << ", error " << vf::show<long double>(err) << " = " << vf::show<long double>(err / (eps * exact.abs_sum() * factor + 1e-4900L))
        << " eps*sum|v|, allowed " << vf::show<long double>(bound));
    return true;
}

template <typename T>
bool naive_outside(T naive, vf::ExactSum<T> const& exact, std::size_t n)
{
    long double const eps = vf::eps<T>();
    long double const bound = (4 * eps + 4 * n * eps * eps) * exact.abs_sum() + 2 * eps * std::fabs(exact.value());
    return std::fabs(static_cast<long double>(naive) - exact.value()) > bound;
}

template <typename T>
void run_t(vf::Ctx& c)
{
    vf::Tape& t = c.t;
    Sink<T> s;
    std::size_t n;
    std::size_t const maxn = vf::thorough() ? 10000000 : 100000;
    switch (t.pick(5))
    {
    case 0: n = 1 + t.range(0, 100); break;
    case 1: n = 1000 + t.range(0, 9000); break;
    case 2: n = 10000 + t.range(0, 90000); break;
    case 3: n = maxn / 10 + t.range(0, maxn - maxn / 10); break;
    default: n = 1000 + t.range(0, 30000); break;
    }
    s.pat.kind = static_cast<int>(t.pick(11));
    s.pat.n = n;
    s.pat.seed = t.stream_seed();
    s.pat.negate = t.pick(3) == 0;
    bool huge_scale = false;
    {
        int const e = static_cast<int>(t.range(0, 22)) - 10;
        s.pat.scale = static_cast<T>(std::pow(10.0L, static_cast<long double>(e)));
        // values whose squares leave the range of T although they and their sum do not (the sum is still claimed), and
        // values a few binades above the smallest normal number
        if (e == 11 && (s.pat.kind == 4 || s.pat.kind == 9 || s.pat.kind == 10)) { s.pat.scale = T(1e10); } // (patterns that span many decades themselves)
        else if (e == 11) { s.pat.scale = static_cast<T>(std::ldexp(static_cast<long double>(std::numeric_limits<T>::max()), -24) / static_cast<long double>(n)); huge_scale = true; c.label("squares-overflow"); }
        if (e == 12) { s.pat.scale = static_cast<T>(std::ldexp(static_cast<long double>(std::numeric_limits<T>::min()), 40)); c.label("near-smallest-normal"); }
    }
    s.pat.interleave = t.pick(5) == 0;
    int const integrator = static_cast<int>(t.pick(3));
    // distributions: none, one (1-d or 2-d) or two (1-d with values a billion times larger, followed by a 2-d one)
    int const dist = static_cast<int>(t.pick(4)); // 0 none, 1 1-d, 2 2-d, 3 both
    std::vector<hep::distribution_parameters<T>> params;
    auto add_dist = [&](bool two_d, T factor) {
        DistSink<T> ds;
        ds.two_d = two_d;
        ds.bx = 1 + t.pick(5);
        std::size_t const by = two_d ? 1 + t.pick(3) : 1;
        ds.nbins = ds.bx * by;
        ds.bin_mode = static_cast<int>(t.pick(2));
        ds.bins.resize(ds.nbins);
        ds.bin_naive.assign(ds.nbins, T(0));
        ds.factor = factor;
        T const xmax = t.flag() ? T(1) : T(3);
        ds.xmin = t.flag() ? T(0) : T(-2);
        if (two_d) { params.emplace_back(ds.bx, by, ds.xmin, xmax, T(-1), T(2), "c14"); }
        else { params.emplace_back(ds.bx, ds.xmin, xmax, "c14"); }
        ds.xsize = params.back().bin_size_x();
        ds.ymin = params.back().y_min();
        ds.ysize = params.back().bin_size_y();
        s.dists.push_back(ds);
    };
    if (dist == 1) { add_dist(false, T(1)); }
    if (dist == 2) { add_dist(true, T(1)); }
    if (dist == 3) { add_dist(false, huge_scale ? T(1) : static_cast<T>(1e9)); add_dist(true, T(1)); } // (no further factor on top of values near the largest finite number)
    std::uint32_t const seed = 1 + static_cast<std::uint32_t>(t.next() % 100000u);
    std::mt19937 eng(seed);
    c.desc << vf::type_name<T>::get() << " N=" << n << " pattern=" << s.pat.name() << (s.pat.negate ? " negated" : "") << (s.pat.interleave ? " every-other-value-non-finite" : "") << " scale=" << vf::show(s.pat.scale)
           << " integrator=" << (integrator == 0 ? "PLAIN" : integrator == 1 ? "VEGAS" : "MULTI") << " dist=" << dist;
    for (auto const& ds : s.dists) { c.desc << " [" << (ds.two_d ? "2d " : "1d ") << ds.nbins << " bins mode " << ds.bin_mode << " x" << vf::show(ds.factor) << "]"; }
    c.desc << " seed=" << seed;
    Fn<T> fn{&s};
    hep::plain_result<T> res(std::vector<hep::distribution_result<T>>(), 0, 0, 0, T(), T());
    std::size_t const dims = 1 + t.pick(3);
    if (integrator == 0)
    {
        if (dist) { hep::integrand<T, Fn<T>, true> ig(fn, dims, params); res = hep::plain_iteration(ig, n, eng); }
        else { hep::integrand<T, Fn<T>, false> ig(fn, dims, params); res = hep::plain_iteration(ig, n, eng); }
    }
    else if (integrator == 1)
    {
        std::size_t const bins = 2 + t.pick(20);
        hep::vegas_pdf<T> pdf(dims, bins);
        if (t.flag())
        {
            // non-uniform grid: power law
            for (std::size_t d = 0; d != dims; ++d) { for (std::size_t b = 1; b < bins; ++b) { pdf.set_bin_left(d, b, static_cast<T>(std::pow(static_cast<long double>(b) / bins, 2.0L))); } }
            c.desc << " grid=power";
        }
        if (dist) { hep::integrand<T, Fn<T>, true> ig(fn, dims, params); res = hep::vegas_iteration(ig, n, pdf, eng); }
        else { hep::integrand<T, Fn<T>, false> ig(fn, dims, params); res = hep::vegas_iteration(ig, n, pdf, eng); }
    }
    else
    {
        std::size_t const channels = 1 + t.pick(4);
        vf::PwcFamily<T> fam = vf::gen_pwc<T>(t, 2, channels, 3);
        std::vector<T> w = vf::gen_weights<T>(t, channels);
        w.resize(channels, T(1));
        long double tot = 0;
        for (auto x : w) { tot += x; }
        for (auto& x : w) { x = static_cast<T>(x / tot); }
        vf::PwcMap<T> map{&fam, nullptr, nullptr};
        c.desc << ' ' << fam.describe() << " w=" << vf::show(w);
        if (dist) { hep::multi_channel_integrand<T, Fn<T>, vf::PwcMap<T>, true> ig(fn, fam.dims, map, fam.map_dims, channels, params); res = hep::multi_channel_iteration(ig, n, w, eng); }
        else { hep::multi_channel_integrand<T, Fn<T>, vf::PwcMap<T>, false> ig(fn, fam.dims, map, fam.map_dims, channels, params); res = hep::multi_channel_iteration(ig, n, w, eng); }
    }
    VF_CHECK(c, s.idx == n && res.calls() == n, "C14:calls", "integrand called " << s.idx << " times, calls() " << res.calls() << ", requested " << n);
    within<T>(c, res.sum(), s.total, 1.0L, n, "C14:sum", "sum of the iteration");
    bool separates = n >= 1000 && naive_outside<T>(s.naive, s.total, n);
    VF_CHECK(c, res.distributions().size() == s.dists.size(), "C14:shape", "distribution count " << res.distributions().size());
    for (std::size_t d = 0; d != s.dists.size(); ++d)
    {
        DistSink<T> const& ds = s.dists[d];
        VF_CHECK(c, res.distributions()[d].results().size() == ds.nbins, "C14:shape", "distribution " << d << " has " << res.distributions()[d].results().size() << " bins");
        long double const inv = 1.0L / static_cast<long double>(ds.xsize) / static_cast<long double>(ds.ysize);
        for (std::size_t b = 0; b != ds.nbins; ++b)
        {
            within<T>(c, res.distributions()[d].results()[b].sum(), ds.bins[b], inv, n, "C14:bin-sum", "sum of bin " + std::to_string(b) + " of distribution " + std::to_string(d));
            if (n >= 1000 && naive_outside<T>(ds.bin_naive[b], ds.bins[b], n)) { separates = true; c.label("bin-separates-naive"); }
            ++c.sub;
        }
        c.label(ds.two_d ? "dist-2d" : "dist-1d");
    }
    if (s.dists.size() == 2) { c.label("two-distributions"); }
    ++c.sub;
    if (separates) { c.label("separates-naive-from-compensated"); }
    if (n >= 100000) { c.label("N>=1e5"); }
    if (s.pat.negate) { c.label("negated"); }
    if (s.pat.interleave) { c.label("interleaved-non-finite"); }
    c.label(std::string("pattern:") + s.pat.name());
    c.nontrivial = separates;
}

void run(vf::Ctx& c)
{
    vf::with_type(c.t, [&](auto tag) { run_t<decltype(tag)>(c); });
}

} // namespace

vf::Property const vf::property = {"C14", "", run, nullptr, nullptr};
