// C03 - resuming from a checkpoint is indistinguishable from never stopping.
// Domain: integrator x engine (all nine) x run configuration (distributions incl. odd names, user
// grids / weights, alpha, beta, minimum weight, unequal calls, early stop by target precision);
// for each configuration ALL 2^(n-1) subsets of iteration boundaries are interruption sets; at an
// interruption the checkpoint goes through text (serialize() or the file written by the callback).
// Oracle: final serialize() text byte-identical to the uninterrupted run's.
// The numeric type is fixed per translation unit (-DVERIF_T=...).
#include "../lib/runners.hpp"
#include "../lib/harness.hpp"

#include <fstream>

#ifndef VERIF_T
#define VERIF_T double
#endif

namespace
{

using T = VERIF_T;

std::string scratch_file()
{
    std::string base = vf::files().cur.empty() ? std::string("/tmp/vf-c03-") + std::to_string(::getpid()) : vf::files().cur;
    return base + ".chkpt";
}

std::string first_difference(std::string const& a, std::string const& b)
{
    std::istringstream ia(a), ib(b);
    std::string la, lb;
    std::size_t line = 0;
    while (true)
    {
        bool const ga = static_cast<bool>(std::getline(ia, la)), gb = static_cast<bool>(std::getline(ib, lb));
        ++line;
        if (!ga && !gb) { return "no difference"; }
        if (ga != gb || la != lb)
        {
            std::ostringstream o;
            o << "line " << line << ": uninterrupted '" << (ga ? la.substr(0, 160) : std::string("<end>")) << "' vs resumed '"
              << (gb ? lb.substr(0, 160) : std::string("<end>")) << "'";
            return o.str();
        }
    }
}

template <typename R>
void run_with(vf::Ctx& c, vf::RunCfg<T> const& cfg, char const* engine_name)
{
    using Chk = typename R::Chk;
    vf::Tape& t = c.t;
    std::size_t const n = 1 + t.pick(vf::thorough() ? 7 : 5);
    std::vector<std::size_t> calls;
    for (std::size_t i = 0; i != n; ++i) { calls.push_back(t.pick(6) == 0 ? t.range(0, 2) : 2 + t.range(0, 250)); }
    T target = T(0);
    if (t.pick(4) == 0) { target = static_cast<T>(std::pow(10.0, -3.0 * t.unit())); }
    bool const file_mode = t.pick(3) == 0;
    bool const reload_start = t.flag();
    bool const base_callback = t.flag();
    std::string const file = scratch_file();
    hep::callback_mode const mode = file_mode ? hep::callback_mode::silent_and_write_chkpt : hep::callback_mode::silent;
    c.desc << vf::type_name<T>::get() << ' ' << engine_name << ' ' << cfg.describe() << " calls=" << vf::show(calls) << " target=" << vf::show(target)
           << (file_mode ? " via-file" : " via-string") << (reload_start ? " start-through-text" : "") << (base_callback ? " callback<base checkpoint type>" : "");

    // the built-in callback, wrapped only to see its verdict (a run that was told to stop is over: what
    // follows is not a resumption of it)
    bool go_on = true;
    // the callback type is either instantiated on the checkpoint type the run uses or - as the library's examples
    // do - on the checkpoint type without generators (the object handed over is the same)
    auto cb = [&]() {
        hep::callback<Chk> inner(mode, file, target);
        hep::callback<typename R::Base> inner_base(mode, file, target);
        bool const use_base = base_callback;
        return [inner, inner_base, use_base, &go_on](Chk const& k) mutable { go_on = use_base ? inner_base(k) : inner(k); return go_on; };
    };

    Chk const ref = R::run(cfg, R::fresh(cfg), calls, cb());
    std::string const ref_text = vf::text_of(ref);
    std::size_t const performed = ref.results().size();
    VF_CHECK(c, performed >= 1 && performed <= n, "C03:reference-length", "reference run performed " << performed << " of " << n);
    if (target == T(0)) { VF_CHECK(c, performed == n, "C03:reference-stopped", "target 0 but the run stopped after " << performed << " of " << n); }

    std::size_t nonzero_iters = 0;
    for (std::size_t i = 0; i != performed; ++i) { if (calls[i] > 0) { ++nonzero_iters; } }
    bool adapted = (R::kind == vf::PLAIN);
    // did the adaptive state change during the run?
    {
        std::string first, last;
        std::ostringstream a, b;
        if (performed >= 2)
        {
            ref.results().front().serialize(a);
            ref.results().back().serialize(b);
            // the state is part of the result text: compare the trailing part crudely through the full text
            adapted = adapted || (a.str() != b.str());
        }
    }

    std::size_t const boundaries = n - 1;
    std::size_t const subsets = std::size_t(1) << boundaries;
    std::size_t max_interruptions = 0;
    for (std::size_t mask = 0; mask < subsets; ++mask)
    {
        if (mask == 0 && !reload_start) { continue; } // that is the reference itself
        Chk chk = R::fresh(cfg);
        std::size_t pos = 0, interruptions = 0;
        bool stopped = false;
        // the start checkpoint itself also has to survive text (covers the zero-result format)
        if (reload_start)
        {
            std::istringstream in(vf::text_of(chk));
            chk = R::load(in);
            VF_CHECK(c, !in.fail(), "C03:stream-failed", "reading the start checkpoint left the stream in a failed state");
        }
        while (pos < n && !stopped)
        {
            std::size_t end = pos + 1;
            while (end < n && !((mask >> (end - 1)) & 1u)) { ++end; }
            std::vector<std::size_t> const seg(calls.begin() + pos, calls.begin() + end);
            chk = R::run(cfg, chk, seg, cb());
            if (chk.results().size() < end || !go_on) { stopped = true; break; }
            pos = end;
            if (pos < n)
            {
                // interruption: through text
                ++interruptions;
                if (file_mode)
                {
                    std::ifstream in(file);
                    VF_CHECK(c, in.good(), "C03:file-missing", "the callback did not leave a checkpoint file");
                    chk = R::load(in);
                    VF_CHECK(c, !in.fail(), "C03:stream-failed", "reading the checkpoint file after iteration " << pos << " left the stream in a failed state");
                }
                else
                {
                    std::istringstream in(vf::text_of(chk));
                    chk = R::load(in);
                    VF_CHECK(c, !in.fail(), "C03:stream-failed", "reading the checkpoint text after iteration " << pos << " left the stream in a failed state");
                }
                VF_CHECK(c, chk.results().size() == pos, "C03:results-lost", "checkpoint read back after iteration " << pos << " holds "
                    << chk.results().size() << " results");
            }
        }
        max_interruptions = std::max(max_interruptions, interruptions);
        std::string const got = vf::text_of(chk);
        ++c.sub;
        VF_CHECK(c, chk.results().size() == performed, "C03:length", "interruption set " << mask << ": resumed run performed "
            << chk.results().size() << " iterations, the uninterrupted run " << performed);
        VF_CHECK(c, got == ref_text, "C03:text-differs", "interruption set " << mask << " (bit i = stop after iteration i+1): final checkpoint differs: "
            << first_difference(ref_text, got));
        if (file_mode && performed >= 1)
        {
            std::ifstream in(file);
            std::stringstream ss;
            ss << in.rdbuf();
            VF_CHECK(c, ss.str() == ref_text, "C03:file-differs", "the file written by the callback differs from serialize(): "
                << first_difference(ref_text, ss.str()));
        }
    }
    if (file_mode) { std::remove(file.c_str()); std::remove((file + ".tmp").c_str()); }
    if (n >= 3) { c.label("interruptions>=2"); }
    if (file_mode) { c.label("via-file"); }
    if (file_mode && base_callback) { c.label("via-file-base-callback"); }
    if (target > T(0) && performed < n) { c.label("early-stop"); }
    for (auto const& d : cfg.fn.dists) { if (d.name.empty() || d.name[0] == ' ') { c.label("odd-distribution-name"); break; } }
    if (!cfg.fn.dists.empty()) { c.label("with-distributions"); }
    c.label(std::string("engine:") + engine_name);
    c.label(R::kind == vf::PLAIN ? "PLAIN" : R::kind == vf::VEGAS ? "VEGAS" : "MULTI");
    if (cfg.user_grid || cfg.user_weights) { c.label("user-state"); }
    c.nontrivial = n >= 2 && nonzero_iters >= 2 && adapted;
}

void run(vf::Ctx& c)
{
    vf::RunCfg<T> const cfg = vf::gen_cfg<T>(c.t);
    vf::with_engine(c.t, [&](auto eng, char const* name) {
        using E = decltype(eng);
        switch (cfg.kind)
        {
        case vf::PLAIN: run_with<vf::Plain<T, E>>(c, cfg, name); break;
        case vf::VEGAS: run_with<vf::Vegas<T, E>>(c, cfg, name); break;
        default: run_with<vf::Multi<T, E>>(c, cfg, name); break;
        }
    });
}

} // namespace

vf::Property const vf::property = {"C03", "", run, nullptr, nullptr};
