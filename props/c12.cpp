// C12 - iterations run in order and stop only when the callback says so.
// (i)  a logging callback that returns false at a generated position (or never), also on a
//      checkpoint that already holds results: invoked once per performed iteration, sees exactly
//      the results so far (prefix-identical), the run ends right after the first false and returns
//      the checkpoint last shown;
// (ii) the built-in callback, all four modes, target 0, on degenerate integrands (identically zero,
//      constant, exact zero mean, non-finite everywhere, zero-or-infinite): never ends a run early;
// (iii) the built-in callback with a positive target: stops at the first iteration at which the
//      variance-weighted combination (recomputed in long double) has a relative error <= target,
//      and not before; also when the run is resumed from a checkpoint.
#include "../lib/runners.hpp"
#include "../lib/harness.hpp"

#include <iostream>

namespace
{

struct NullBuf : std::streambuf
{
    std::size_t chars = 0;
    int overflow(int ch) override { ++chars; return ch; }
    std::streamsize xsputn(char const*, std::streamsize n) override { chars += static_cast<std::size_t>(n); return n; }
};

struct CoutSilencer
{
    NullBuf buf;
    std::streambuf* old;
    CoutSilencer() : old(std::cout.rdbuf(&buf)) {}
    ~CoutSilencer() { std::cout.rdbuf(old); }
};

std::string scratch_file()
{
    std::string base = vf::files().cur.empty() ? std::string("/tmp/vf-c12-") + std::to_string(::getpid()) : vf::files().cur;
    return base + ".c12chk";
}

template <typename Result>
std::string result_text(Result const& r)
{
    std::ostringstream o;
    r.serialize(o);
    return o.str();
}

struct CbLog
{
    std::vector<std::vector<std::string>> seen; // result texts at each invocation
    std::vector<std::string> chkpt_text;
    std::size_t stop_at = 0; // 1-based invocation at which the callback returns false; 0 = never
};

template <typename T, typename R>
void logging_callback(vf::Ctx& c, vf::RunCfg<T> const& cfg, std::vector<std::size_t> const& calls, std::size_t k0, std::size_t stop_at)
{
    using Chk = typename R::Chk;
    auto go = [](Chk const&) { return true; };
    std::vector<std::size_t> warm;
    for (std::size_t i = 0; i != k0; ++i) { warm.push_back(5 + 3 * i); }
    Chk const start = k0 ? R::run(cfg, R::fresh(cfg), warm, go) : R::fresh(cfg);
    std::vector<std::string> start_results;
    for (auto const& r : start.results()) { start_results.push_back(result_text(r)); }
    CbLog log;
    log.stop_at = stop_at;
    auto cb = [&log](Chk const& k) {
        std::vector<std::string> texts;
        for (auto const& r : k.results()) { texts.push_back(result_text(r)); }
        log.seen.push_back(texts);
        log.chkpt_text.push_back(vf::text_of(k));
        return !(log.stop_at != 0 && log.seen.size() == log.stop_at);
    };
    Chk const out = R::run(cfg, start, calls, cb);
    std::size_t const n = calls.size();
    std::size_t const expect = (stop_at != 0 && stop_at <= n) ? stop_at : n;
    VF_CHECK(c, log.seen.size() == expect, "C12:invocations", "callback invoked " << log.seen.size() << " times, expected " << expect << " (" << n
        << " iterations requested, callback returns false at invocation " << stop_at << ")");
    VF_CHECK(c, out.results().size() == k0 + expect, "C12:performed", "run returned " << out.results().size() << " results, expected " << k0 << " + " << expect);
    for (std::size_t j = 0; j != log.seen.size(); ++j)
    {
        std::vector<std::string> const& prev = j ? log.seen[j - 1] : start_results;
        VF_CHECK(c, log.seen[j].size() == k0 + j + 1, "C12:results-at-invocation", "invocation " << (j + 1) << " saw " << log.seen[j].size() << " results, expected "
            << (k0 + j + 1));
        for (std::size_t i = 0; i != prev.size(); ++i)
        {
            VF_CHECK(c, log.seen[j][i] == prev[i], "C12:earlier-result-changed", "invocation " << (j + 1) << ": result " << i << " differs from what was there before");
        }
        ++c.sub;
    }
    // in order: the j-th new result is the iteration with calls[j]
    for (std::size_t j = 0; j != expect; ++j)
    {
        VF_CHECK(c, out.results()[k0 + j].calls() == calls[j], "C12:order", "new result " << j << " made " << out.results()[k0 + j].calls() << " calls, the list says " << calls[j]);
    }
    if (expect > 0) { VF_CHECK(c, vf::text_of(out) == log.chkpt_text.back(), "C12:returned-checkpoint", "the returned checkpoint is not the one last shown to the callback"); }
    else { VF_CHECK(c, vf::text_of(out) == vf::text_of(start), "C12:returned-checkpoint", "no iteration requested but the checkpoint changed"); }
}

template <typename T, typename R>
void builtin_target_zero(vf::Ctx& c, vf::RunCfg<T> const& cfg, std::vector<std::size_t> const& calls, int mode_index)
{
    using Chk = typename R::Chk;
    static hep::callback_mode const modes[] = {hep::callback_mode::silent, hep::callback_mode::silent_and_write_chkpt, hep::callback_mode::verbose,
        hep::callback_mode::verbose_and_write_chkpt};
    CoutSilencer quiet;
    std::string const file = scratch_file();
    Chk const out = R::run(cfg, R::fresh(cfg), calls, hep::callback<Chk>(modes[mode_index], file, T(0)));
    std::remove(file.c_str());
    std::remove((file + ".tmp").c_str());
    VF_CHECK(c, out.results().size() == calls.size(), "C12:ended-early-without-target", "target precision 0, " << calls.size() << " iterations requested, "
        << out.results().size() << " performed (integrand family " << cfg.fn.family << ")");
    ++c.sub;
}

template <typename T, typename R>
void builtin_with_target(vf::Ctx& c, vf::RunCfg<T> const& cfg, std::vector<std::size_t> const& calls, T target, std::size_t k0, bool& judged)
{
    using Chk = typename R::Chk;
    auto go = [](Chk const&) { return true; };
    // reference: all iterations, no stop
    std::vector<std::size_t> all(calls);
    Chk const full = R::run(cfg, R::fresh(cfg), all, go);
    // where must the run stop?  combination of the first j results in long double
    std::size_t const n = calls.size();
    std::size_t must_stop = n; // index j (1-based count of results) at which the callback has to return false; n if never
    bool ambiguous = false;
    for (std::size_t j = std::max<std::size_t>(k0, 1); j <= n; ++j)
    {
        if (j <= k0) { continue; }
        long double sw = 0, swe = 0;
        std::size_t total_calls = 0, nz = 0;
        // the same combination carried out in T: when its intermediate results leave the range of T (1/variance of a
        // subnormal variance, squares below the smallest normal number) the combination does not exist in T and the
        // stop decision is not judged
        T sw_t = T(), swe_t = T();
        bool out_of_range = false;
        long double kappa_iter = 1; // conditioning of the per-iteration variance (mean square over variance of the mean times N-1)
        for (std::size_t i = 0; i != j; ++i)
        {
            auto const& r = full.results()[i];
            total_calls += r.calls();
            nz += r.finite_calls(); // (evaluations that carry information: non-zero and finite)
            if (r.finite_calls() == 0) { continue; }
            // estimate and variance of the iteration from its sums, by the documented formulas (not through value() / variance())
            long double const N = static_cast<long double>(r.calls());
            long double const mean = static_cast<long double>(r.sum()) / N;
            long double const msq = static_cast<long double>(r.sum_of_squares()) / N;
            long double const var = (msq - mean * mean) / (N - 1.0L);
            if (!(var > 0)) { out_of_range = true; continue; } // (a constant iteration: the weight 1/S^2 does not exist)
            kappa_iter = std::max(kappa_iter, msq / (var * (N - 1.0L)));
            sw += 1.0L / var;
            swe += mean / var;
            T const var_t = static_cast<T>(var), w_t = T(1) / var_t;
            sw_t += w_t;
            swe_t += w_t * static_cast<T>(mean);
            if (!(var_t >= std::numeric_limits<T>::min()) || !std::isfinite(w_t)) { out_of_range = true; }
        }
        if (nz != 0)
        {
            T const var_t = T(1) / sw_t, est_t = swe_t * var_t;
            T const sq = est_t * est_t + static_cast<T>(total_calls - 1) * var_t;
            if (!std::isfinite(sw_t) || !std::isfinite(swe_t) || !(var_t >= std::numeric_limits<T>::min()) || !(std::fabs(est_t) > T(0)) || !(est_t * est_t >= std::numeric_limits<T>::min())
                || !std::isfinite(static_cast<T>(total_calls) * sq)) { out_of_range = true; }
        }
        if (out_of_range) { ambiguous = true; c.label("combination-outside-the-range-of-T-not-judged"); }
        long double rel;
        if (nz == 0) { c.label("no-information-yet:must-go-on"); continue; } // "0 +- 0": the relative error is NaN, which is not <= target
        else
        {
            long double const E = swe / sw, S = 1.0L / std::sqrt(sw);
            rel = S / std::fabs(E);
            long double const kappa = 1.0L + E * E / ((total_calls - 1.0L) * S * S);
            long double const band = std::max<long double>(1e-6L, 256 * vf::eps<T>() * (kappa + kappa_iter));
            if (std::fabs(rel - target) <= band * static_cast<long double>(target)) { ambiguous = true; }
        }
        if (std::isnan(rel) || std::isinf(rel)) { ambiguous = true; }
        if (ambiguous) { break; }
        if (rel <= static_cast<long double>(target)) { must_stop = j; break; }
    }
    if (ambiguous) { c.label("boundary-ambiguous-not-judged"); return; }
    // run under test: first k0 iterations without a target (as an earlier session would have), then resumed with the target
    std::vector<std::size_t> const head(calls.begin(), calls.begin() + k0), tail(calls.begin() + k0, calls.end());
    Chk const start = k0 ? R::run(cfg, R::fresh(cfg), head, go) : R::fresh(cfg);
    Chk const out = R::run(cfg, start, tail, hep::callback<Chk>(hep::callback_mode::silent, "", target));
    VF_CHECK(c, out.results().size() == must_stop, "C12:stop-position", "target " << vf::show(target) << ": run " << (k0 ? "resumed after " + std::to_string(k0) + " iterations " : std::string())
        << "stopped after " << out.results().size() << " results, the combined relative error first reaches the target after " << must_stop << " (of " << n << ")");
    judged = true;
    ++c.sub;
}

// exact boundary: the target is, bit for bit, the relative error the library's own combination has after iteration k of
// an identical earlier run; the run must end at the first iteration whose relative error is not larger - equality counts
template <typename T, typename R>
void builtin_with_exact_target(vf::Ctx& c, vf::RunCfg<T> const& cfg, std::vector<std::size_t> const& calls, std::size_t k0, std::size_t k)
{
    using Chk = typename R::Chk;
    auto go = [](Chk const&) { return true; };
    std::size_t const n = calls.size();
    if (!(k > k0 && k <= n)) { return; }
    Chk const full = R::run(cfg, R::fresh(cfg), calls, go);
    std::vector<T> rel(n + 1, std::numeric_limits<T>::quiet_NaN());
    for (std::size_t j = 1; j <= n; ++j)
    {
        auto const comb = hep::accumulate<hep::weighted_with_variance>(full.results().begin(), full.results().begin() + j);
        rel[j] = comb.error() / std::fabs(comb.value());
    }
    T const target = rel[k];
    if (!(target > T(0)) || !(target <= T(1))) { return; }
    std::size_t must_stop = n;
    for (std::size_t j = k0 + 1; j <= n; ++j) { if (rel[j] <= target) { must_stop = j; break; } }
    std::vector<std::size_t> const head(calls.begin(), calls.begin() + k0), tail(calls.begin() + k0, calls.end());
    Chk const start = k0 ? R::run(cfg, R::fresh(cfg), head, go) : R::fresh(cfg);
    Chk const out = R::run(cfg, start, tail, hep::callback<Chk>(hep::callback_mode::silent, "", target));
    VF_CHECK(c, out.results().size() == must_stop, "C12:stop-position-exact", "target " << vf::show(target) << " = the relative error of the combination after iteration " << k
        << ": run " << (k0 ? "resumed after " + std::to_string(k0) + " iterations " : std::string()) << "stopped after " << out.results().size() << " results, the relative error is first not larger than the target after "
        << must_stop << " (of " << n << ")");
    c.label("target-equals-relative-error");
    ++c.sub;
}

// the same with a campaign that already holds more than 2^32 calls (a result of an earlier, long run that was read back):
// the combination carries the total number of calls, and nothing in the stop decision may depend on its size
template <typename T, typename R>
void builtin_with_target_after_long_campaign(vf::Ctx& c, vf::RunCfg<T> const& cfg, std::vector<std::size_t> const& calls, T target, bool& judged)
{
    using Chk = typename R::Chk;
    auto go = [](Chk const&) { return true; };
    // scale of the integrand from a short run
    Chk const probe = R::run(cfg, R::fresh(cfg), std::vector<std::size_t>{2000}, go);
    long double const E0 = probe.results()[0].value(), S1 = probe.results()[0].error();
    if (!(std::fabs(E0) > 0) || !(S1 > 0)) { c.label("boundary-ambiguous-not-judged"); return; }
    std::size_t const N0 = std::size_t(5000000000ull) + calls.size();
    // an earlier campaign whose error is of the order of the target
    long double const S0 = std::fabs(E0) * static_cast<long double>(target) * 3;
    hep::mc_result<T> const m = hep::create_result<T>(N0, N0, N0, static_cast<T>(E0), static_cast<T>(S0));
    Chk start = R::fresh(cfg);
    start.add(hep::plain_result<T>(std::vector<hep::distribution_result<T>>(), m.calls(), m.non_zero_calls(), m.finite_calls(), m.sum(), m.sum_of_squares()), start.generator());
    {
        // as it would be in practice: read back from text
        std::istringstream in(vf::text_of(start));
        start = R::load(in);
    }
    Chk const full = R::run(cfg, start, calls, go);
    std::size_t const n = calls.size();
    std::size_t must_stop = n + 1;
    bool ambiguous = false;
    for (std::size_t j = 2; j <= n + 1; ++j)
    {
        long double sw = 0, swe = 0, total_calls = 0;
        for (std::size_t i = 0; i != j; ++i)
        {
            auto const& r = full.results()[i];
            total_calls += r.calls();
            if (r.finite_calls() == 0) { continue; }
            // the fabricated result is taken by its construction values: the model must not share the conversion under test
            long double const var = (i == 0) ? S0 * S0 : static_cast<long double>(r.variance());
            long double const val = (i == 0) ? E0 : static_cast<long double>(r.value());
            sw += 1.0L / var;
            swe += val / var;
        }
        long double const E = swe / sw, S = 1.0L / std::sqrt(sw);
        long double const rel = S / std::fabs(E);
        long double const kappa = 1.0L + E * E / ((total_calls - 1.0L) * S * S);
        long double const band = std::max<long double>(1e-6L, 256 * vf::eps<T>() * kappa);
        if (!(rel == rel) || std::fabs(rel - target) <= band * static_cast<long double>(target)) { ambiguous = true; break; }
        if (rel <= static_cast<long double>(target)) { must_stop = j; break; }
    }
    if (ambiguous) { c.label("boundary-ambiguous-not-judged"); return; }
    Chk const out = R::run(cfg, start, calls, hep::callback<Chk>(hep::callback_mode::silent, "", target));
    VF_CHECK(c, out.results().size() == must_stop, "C12:stop-position", "target " << vf::show(target) << " after a campaign of " << N0 << " calls: the run stopped after "
        << out.results().size() - 1 << " new iterations, the combined relative error first reaches the target after " << must_stop - 1 << " (of " << n << ")");
    judged = true;
    ++c.sub;
}

template <typename T>
void run_t(vf::Ctx& c)
{
    vf::Tape& t = c.t;
    vf::RunCfg<T> cfg = vf::gen_cfg<T>(t);
    cfg.fn.dists.clear();
    std::size_t const layer = t.pick(3);
    std::size_t const n = t.range(0, 8);
    std::vector<std::size_t> calls;
    for (std::size_t i = 0; i != n; ++i) { calls.push_back(t.pick(5) == 0 ? t.range(0, 2) : 4 + 2 * t.range(0, 150)); }
    c.desc << vf::type_name<T>::get() << ' ';
    using E = std::mt19937;
    auto dispatch = [&](auto&& f) {
        switch (cfg.kind)
        {
        case vf::PLAIN: f(vf::Plain<T, E>()); break;
        case vf::VEGAS: f(vf::Vegas<T, E>()); break;
        default: f(vf::Multi<T, E>()); break;
        }
    };
    if (layer == 0)
    {
        std::size_t const k0 = t.pick(3);
        std::size_t const stop_at = t.pick(3) == 0 ? 0 : t.range(1, n + 1);
        c.desc << "logging-callback k0=" << k0 << " stop_at=" << stop_at << " calls=" << vf::show(calls) << ' ' << cfg.describe();
        dispatch([&](auto r) { logging_callback<T, decltype(r)>(c, cfg, calls, k0, stop_at); });
        c.label("logging-callback");
        if (k0) { c.label("resumed-checkpoint"); }
        c.nontrivial = n >= 2 && stop_at > 1 && stop_at < n;
    }
    else if (layer == 1)
    {
        static int const degenerate[] = {5, 3, 7, 6, 8, 0};
        cfg.fn.family = degenerate[t.pick(6)];
        if (cfg.fn.family == 7) { for (auto& x : calls) { x += x % 2; } } // even N: exact zero mean (PLAIN)
        int const mode = static_cast<int>(t.pick(4));
        c.desc << "builtin target=0 mode=" << mode << " calls=" << vf::show(calls) << ' ' << cfg.describe();
        dispatch([&](auto r) { builtin_target_zero<T, decltype(r)>(c, cfg, calls, mode); });
        c.label("builtin-target-zero");
        if (cfg.fn.family != 0) { c.label("degenerate-integrand"); }
        c.nontrivial = n >= 2 && cfg.fn.family != 0;
    }
    else
    {
        static int const ordinary[] = {0, 1, 2, 4};
        cfg.fn.family = ordinary[t.pick(4)];
        // the stop position does not depend on the overall magnitude of the integrand, as long as squares stay representable
        switch (t.pick(4))
        {
        case 1: cfg.fn.scale = static_cast<T>(std::pow(10.0L, -static_cast<long double>(std::numeric_limits<T>::max_exponent10) / 4)); break; // 1e-9 / 1e-77 / 1e-1233
        case 2: cfg.fn.scale = static_cast<T>(std::pow(10.0L, static_cast<long double>(std::numeric_limits<T>::max_exponent10) / 4)); break;
        default: break;
        }
        if (cfg.fn.scale != T(1)) { c.label("extreme-magnitude"); }
        for (auto& x : calls) { if (x < 4) { x = 4; } }
        T const target = static_cast<T>(std::pow(10.0L, -3.0L * t.unit()));
        std::size_t const k0 = n ? t.pick(std::min<std::size_t>(n, 3)) : 0;
        bool judged = false;
        bool const long_campaign = cfg.kind == vf::PLAIN && !std::is_same<T, float>::value && t.pick(3) == 0;
        // an integrand that vanishes on 90 % of the domain: the first short iterations return "0 +- 0", the relative error
        // of the combination is NaN - that is not "not larger than the target", the run has to go on
        if (!long_campaign && t.pick(4) == 1)
        {
            cfg.fn.family = 11;
            for (std::size_t i = 0; i < calls.size() && i < 2; ++i) { calls[i] = 4 + calls[i] % 8; }
            c.label("mostly-zero-integrand");
        }
        c.desc << "builtin target=" << vf::show(target) << " k0=" << k0 << " calls=" << vf::show(calls) << ' ' << cfg.describe();
        if (long_campaign)
        {
            c.desc << " after-5e9-calls";
            c.label("after-long-campaign");
            builtin_with_target_after_long_campaign<T, vf::Plain<T, E>>(c, cfg, calls, target, judged);
        }
        else
        dispatch([&](auto r) { builtin_with_target<T, decltype(r)>(c, cfg, calls, target, k0, judged); });
        if (!long_campaign && n)
        {
            std::size_t const k = k0 + 1 + t.pick(n - k0 ? n - k0 : 1);
            bool exact = false;
            dispatch([&](auto r) { builtin_with_exact_target<T, decltype(r)>(c, cfg, calls, k0, k); exact = true; });
            (void) exact;
        }
        c.label("builtin-positive-target");
        if (k0) { c.label("resumed-checkpoint"); }
        c.nontrivial = judged && n >= 2;
    }
}

void run(vf::Ctx& c)
{
    vf::with_type(c.t, [&](auto tag) { run_t<decltype(tag)>(c); });
}

} // namespace

vf::Property const vf::property = {"C12", "", run, nullptr, nullptr};
