// C10 - every call consumes a fixed, predictable amount of generator output.
// Domain: numeric type (fixed per unit) x {nine standard engines, synthetic ranges 2, 3, 2^7, 2^14,
// 2^16+1, 2^31-1, 2^32-5, [1,2^32-1], [1,2^16-1], 2^53, 2^63, 2^64, independent_bits_engine 7/14/23 bits}
// x integrator x dimensions x calls x integrand patterns (zero / finite / non-finite, projector or
// not) x grids / weights incl. disabled channels.
// Oracle: (i) a counting wrapper read inside the integrand advances by the same k*d (k*(d+1) for
// multi-channel) raw draws per call whatever the previous call returned; (ii) k equals
// hep::random_number_usage; (iii) the generator after an iteration equals a copy advanced by
// discard(calls * that amount) - also for the generator stored in the checkpoint of hep::plain/vegas/multi_channel.
#include "hep/mc.hpp"
#include "hep/mc/generator_helper.hpp"

#include "../lib/gen.hpp"
#include "../lib/instruments.hpp"
#include "../lib/pwc.hpp"
#include "../lib/harness.hpp"

#include <random>

#ifndef VERIF_T
#define VERIF_T double
#endif

namespace
{

using T = VERIF_T;

struct Probe
{
    std::function<std::uint64_t()> count;  // raw draws so far (null when not counting)
    std::vector<std::uint64_t> at_call;    // counter value seen at each integrand call
    int pattern = 0;
    bool use_projector = false;
    bool ask_weight = false;
};

struct Fn
{
    Probe* pr;

    template <typename P>
    T eval(P const& p, hep::projector<T>* proj) const
    {
        std::size_t const i = pr->at_call.size();
        pr->at_call.push_back(pr->count ? pr->count() : 0);
        T v;
        switch (pr->pattern)
        {
        case 0: v = T(1); break;
        case 1: v = T(0); break;
        case 2: v = (i % 2) ? T(0) : T(1.5); break;
        case 3: v = (i % 3 == 0) ? std::numeric_limits<T>::quiet_NaN() : ((i % 3 == 1) ? T(0) : T(-2)); break;
        case 4: v = (i % 4 == 0) ? std::numeric_limits<T>::infinity() : T(1) + p.point()[0]; break;
        default: v = p.point()[0] - T(0.5); break;
        }
        if (pr->ask_weight && (i % 5 == 0)) { (void) p.weight(); }
        if (proj && pr->use_projector && (i % 2 == 0)) { proj->add(0, p.point()[0], v); }
        return v;
    }
    template <typename P> T operator()(P const& p) const { return eval(p, nullptr); }
    template <typename P> T operator()(P const& p, hep::projector<T>& proj) const { return eval(p, &proj); }
};

struct Setup
{
    int integrator = 0;
    std::size_t dims = 1, calls = 0;
    bool with_dist = false;
    // vegas
    hep::vegas_pdf<T> pdf{1, 2};
    // multi channel
    vf::PwcFamily<T> fam;
    std::vector<T> weights;
};

template <typename G>
void iterate(Setup const& s, Fn fn, G& gen)
{
    std::vector<hep::distribution_parameters<T>> params;
    if (s.with_dist) { params.emplace_back(3, T(0), T(1), "c10"); }
    if (s.integrator == 0)
    {
        if (s.with_dist) { hep::integrand<T, Fn, true> ig(fn, s.dims, params); (void) hep::plain_iteration(ig, s.calls, gen); }
        else { hep::integrand<T, Fn, false> ig(fn, s.dims, params); (void) hep::plain_iteration(ig, s.calls, gen); }
    }
    else if (s.integrator == 1)
    {
        if (s.with_dist) { hep::integrand<T, Fn, true> ig(fn, s.dims, params); (void) hep::vegas_iteration(ig, s.calls, s.pdf, gen); }
        else { hep::integrand<T, Fn, false> ig(fn, s.dims, params); (void) hep::vegas_iteration(ig, s.calls, s.pdf, gen); }
    }
    else
    {
        vf::PwcMap<T> map{&s.fam, nullptr, nullptr};
        if (s.with_dist) { hep::multi_channel_integrand<T, Fn, vf::PwcMap<T>, true> ig(fn, s.dims, map, s.fam.map_dims, s.fam.channels, params); (void) hep::multi_channel_iteration(ig, s.calls, s.weights, gen); }
        else { hep::multi_channel_integrand<T, Fn, vf::PwcMap<T>, false> ig(fn, s.dims, map, s.fam.map_dims, s.fam.channels, params); (void) hep::multi_channel_iteration(ig, s.calls, s.weights, gen); }
    }
}

template <typename E>
void run_engine(vf::Ctx& c, Setup const& s, Probe proto, char const* name, std::uint32_t seed)
{
    std::size_t const numbers = s.dims + (s.integrator == 2 ? 1 : 0);
    std::size_t const k_measured = vf::draws_per_canonical<T, E>();
    std::size_t const k_predicted = hep::random_number_usage<T, E>();
    VF_CHECK(c, k_predicted == k_measured, "C10:predictor", name << ": random_number_usage reports " << k_predicted << " raw draws per number, "
        "std::generate_canonical consumes " << k_measured);
    // the predictor must also cope with reference / cv qualified engine types (the MPI code passes decltype(generator))
    VF_CHECK(c, (hep::random_number_usage<T, E&>() == k_measured), "C10:predictor-ref", name << ": predictor for a reference type differs");

    // (i) counting wrapper
    {
        vf::counting_engine<E> ce{E(seed)};
        Probe pr = proto;
        vf::counting_engine<E> const reader = ce; // shares the counter
        pr.count = [reader]() { return reader.count(); };
        std::size_t const k_counting = hep::random_number_usage<T, vf::counting_engine<E>>();
        VF_CHECK(c, k_counting == k_measured, "C10:predictor", name << ": predictor for a wrapped engine of the same range reports " << k_counting);
        iterate(s, Fn{&pr}, ce);
        VF_CHECK(c, pr.at_call.size() == s.calls, "C10:calls", name << ": integrand called " << pr.at_call.size() << " times for " << s.calls);
        std::uint64_t const per_call = k_measured * numbers;
        for (std::size_t i = 0; i != pr.at_call.size(); ++i)
        {
            VF_CHECK(c, pr.at_call[i] == (i + 1) * per_call, "C10:per-call-consumption", name << ": at call " << i << " the generator had produced " << pr.at_call[i]
                << " raw numbers, expected " << (i + 1) << " x " << numbers << " numbers x " << k_measured << " draws");
        }
        VF_CHECK(c, ce.count() == s.calls * per_call, "C10:total-consumption", name << ": iteration consumed " << ce.count() << " raw numbers, expected "
            << s.calls * per_call);
        c.sub += s.calls;
    }
    // (iii) real engine: state after the iteration == copy advanced by discard
    {
        E gen(seed), expect(seed);
        Probe pr = proto;
        iterate(s, Fn{&pr}, gen);
        expect.discard(static_cast<unsigned long long>(s.calls) * numbers * k_predicted);
        VF_CHECK(c, gen == expect, "C10:generator-position", name << ": the generator after " << s.calls << " calls is not the initial one advanced by calls x "
            << numbers << " x " << k_predicted);
    }
    c.label(std::string("engine:") + name);
    if (k_measured >= 2) { c.label("multi-draw"); }
}

// the generator stored in the checkpoint (standard engines, through the public integrators)
template <typename E>
void run_stored(vf::Ctx& c, Setup const& s, Probe proto, char const* name, std::uint32_t seed)
{
    std::size_t const numbers = s.dims + (s.integrator == 2 ? 1 : 0);
    std::size_t const k = hep::random_number_usage<T, E>();
    std::vector<std::size_t> const calls = {s.calls, s.calls / 2 + 1};
    Probe pr = proto;
    Fn fn{&pr};
    std::vector<hep::distribution_parameters<T>> params;
    E expect(seed);
    auto silent = [](auto const&) { return true; };
    auto check = [&](auto const& chk) {
        VF_CHECK(c, chk.results().size() == 2, "C10:stored-iterations", "iterations " << chk.results().size());
        expect.discard(static_cast<unsigned long long>(calls[0] + calls[1]) * numbers * k);
        VF_CHECK(c, chk.generator() == expect, "C10:stored-generator", name << ": the generator stored in the checkpoint after " << calls[0] << "+" << calls[1]
            << " calls is not the initial one advanced by calls x " << numbers << " x " << k);
    };
    if (s.integrator == 0)
    {
        hep::integrand<T, Fn, false> ig(fn, s.dims, params);
        check(hep::plain(ig, calls, hep::make_plain_chkpt<T, E>(E(seed)), silent));
    }
    else if (s.integrator == 1)
    {
        hep::integrand<T, Fn, false> ig(fn, s.dims, params);
        check(hep::vegas(ig, calls, hep::make_vegas_chkpt<T, E>(s.pdf, T(1.5), E(seed)), silent));
    }
    else
    {
        vf::PwcMap<T> map{&s.fam, nullptr, nullptr};
        hep::multi_channel_integrand<T, Fn, vf::PwcMap<T>, false> ig(fn, s.dims, map, s.fam.map_dims, s.fam.channels, params);
        check(hep::multi_channel(ig, calls, hep::make_multi_channel_chkpt<T, E>(s.weights, T(0), T(0.25), E(seed)), silent));
    }
    c.label("stored-generator");
}

// a scripted engine whose canonical numbers include exact zeros and the largest value below one: the amount of output
// consumed per call must not depend on the VALUES the generator produces either
void run_scripted(vf::Ctx& c, Setup const& s, Probe proto, std::uint64_t stream)
{
    using E = vf::script_engine;
    std::size_t const numbers = s.dims + (s.integrator == 2 ? 1 : 0);
    std::size_t const k = vf::draws_per_canonical<T, E>();
    std::size_t const predicted = hep::random_number_usage<T, E>();
    VF_CHECK(c, predicted == k, "C10:predictor", "scripted 64-bit engine: predictor " << predicted << ", measured " << k);
    std::vector<std::uint64_t> script;
    for (std::size_t i = 0; i != s.calls * numbers; ++i)
    {
        switch (vf::mix2(stream, i) % 6)
        {
        case 0: vf::push_canonical<T>(script, 0.0L); break;                                                   // exactly zero
        case 1: vf::push_canonical<T>(script, static_cast<long double>(std::nextafter(T(1), T(0)))); break;   // largest below one
        case 2: for (std::size_t j = 0; j != k; ++j) { script.push_back(~0ull); } break;                       // would round to one
        default: vf::push_canonical<T>(script, static_cast<long double>(vf::stream_unit(stream, i + 99))); break;
        }
    }
    E eng(script);
    Probe pr = proto;
    E const* peng = &eng;
    pr.count = [peng]() { return peng->position(); };
    iterate(s, Fn{&pr}, eng);
    VF_CHECK(c, pr.at_call.size() == s.calls, "C10:calls", "scripted engine: integrand called " << pr.at_call.size() << " times for " << s.calls);
    for (std::size_t i = 0; i != pr.at_call.size(); ++i)
    {
        VF_CHECK(c, pr.at_call[i] == (i + 1) * numbers * k, "C10:per-call-consumption", "scripted engine with zeros: at call " << i << " the generator had produced "
            << pr.at_call[i] << " raw numbers, expected " << (i + 1) * numbers * k);
    }
    VF_CHECK(c, eng.position() == s.calls * numbers * k, "C10:total-consumption", "scripted engine with zeros: iteration consumed " << eng.position() << " raw numbers, expected "
        << s.calls * numbers * k);
    c.sub += s.calls;
    c.label("engine:scripted-with-zeros");
    if (k >= 2) { c.label("multi-draw"); }
}

void run(vf::Ctx& c)
{
    vf::Tape& t = c.t;
    Setup s;
    s.integrator = static_cast<int>(t.pick(3));
    s.dims = 1 + t.pick(6);
    s.calls = t.pick(4) == 0 ? t.range(0, 3) : t.range(0, 500);
    s.with_dist = t.pick(3) == 0;
    Probe pr;
    pr.pattern = static_cast<int>(t.pick(6));
    pr.use_projector = t.flag();
    pr.ask_weight = t.flag();
    std::uint32_t const seed = 1 + static_cast<std::uint32_t>(t.next() % 1000000u);
    if (s.integrator == 1)
    {
        std::size_t const bins = 2 + t.pick(20);
        s.pdf = hep::vegas_pdf<T>(s.dims, bins);
        if (t.flag()) { for (std::size_t d = 0; d != s.dims; ++d) { for (std::size_t b = 1; b < bins; ++b) { s.pdf.set_bin_left(d, b, static_cast<T>(std::pow(static_cast<long double>(b) / bins, 2.5L))); } } }
    }
    if (s.integrator == 2)
    {
        std::size_t const channels = 1 + t.pick(5);
        s.fam = vf::gen_pwc<T>(t, 3, channels, 3);
        s.dims = s.fam.dims;
        s.weights = vf::gen_weights<T>(t, channels);
        s.weights.resize(channels, T(1));
    }
    std::size_t const which = t.pick(27);
    c.desc << vf::type_name<T>::get() << (s.integrator == 0 ? " PLAIN" : s.integrator == 1 ? " VEGAS" : " MULTI") << " d=" << s.dims << " calls=" << s.calls
           << " pattern=" << pr.pattern << (pr.use_projector ? " projector" : "") << (pr.ask_weight ? " asks-weight" : "") << (s.with_dist ? " +dist" : "")
           << " seed=" << seed << " engine#" << which;
    if (s.integrator == 2) { c.desc << " w=" << vf::show(s.weights) << ' ' << s.fam.describe(); }
    using U = std::uint64_t;
    switch (which)
    {
    case 0: run_engine<std::mt19937>(c, s, pr, "mt19937", seed); run_stored<std::mt19937>(c, s, pr, "mt19937", seed); break;
    case 1: run_engine<std::minstd_rand>(c, s, pr, "minstd_rand", seed); run_stored<std::minstd_rand>(c, s, pr, "minstd_rand", seed); break;
    case 2: run_engine<std::minstd_rand0>(c, s, pr, "minstd_rand0", seed); run_stored<std::minstd_rand0>(c, s, pr, "minstd_rand0", seed); break;
    case 3: run_engine<std::mt19937_64>(c, s, pr, "mt19937_64", seed); run_stored<std::mt19937_64>(c, s, pr, "mt19937_64", seed); break;
    case 4: run_engine<std::ranlux24_base>(c, s, pr, "ranlux24_base", seed); run_stored<std::ranlux24_base>(c, s, pr, "ranlux24_base", seed); break;
    case 5: run_engine<std::ranlux48_base>(c, s, pr, "ranlux48_base", seed); run_stored<std::ranlux48_base>(c, s, pr, "ranlux48_base", seed); break;
    case 6: run_engine<std::ranlux24>(c, s, pr, "ranlux24", seed); run_stored<std::ranlux24>(c, s, pr, "ranlux24", seed); break;
    case 7: run_engine<std::ranlux48>(c, s, pr, "ranlux48", seed); run_stored<std::ranlux48>(c, s, pr, "ranlux48", seed); break;
    case 8: run_engine<std::knuth_b>(c, s, pr, "knuth_b", seed); run_stored<std::knuth_b>(c, s, pr, "knuth_b", seed); break;
    case 9: run_engine<vf::range_engine<0, 1>>(c, s, pr, "range[0,1]", seed); break;
    case 10: run_engine<vf::range_engine<0, 2>>(c, s, pr, "range[0,2]", seed); break;
    case 11: run_engine<vf::range_engine<0, (U(1) << 7) - 1>>(c, s, pr, "range 2^7", seed); break;
    case 12: run_engine<vf::range_engine<0, (U(1) << 14) - 1>>(c, s, pr, "range 2^14", seed); break;
    case 13: run_engine<vf::range_engine<0, (U(1) << 16)>>(c, s, pr, "range 2^16+1", seed); break;
    case 14: run_engine<vf::range_engine<0, (U(1) << 31) - 2>>(c, s, pr, "range 2^31-1", seed); break;
    case 15: run_engine<vf::range_engine<0, (U(1) << 32) - 6>>(c, s, pr, "range 2^32-5", seed); break;
    case 16: run_engine<vf::range_engine<1, (U(1) << 32) - 1>>(c, s, pr, "range [1,2^32-1]", seed); break;
    case 17: run_engine<vf::range_engine<1, (U(1) << 16) - 1>>(c, s, pr, "range [1,2^16-1]", seed); break;
    case 18: run_engine<vf::range_engine<0, (U(1) << 53) - 1>>(c, s, pr, "range 2^53", seed); break;
    case 19: run_engine<vf::range_engine<0, (U(1) << 63) - 1>>(c, s, pr, "range 2^63", seed); break;
    case 20: run_engine<vf::range_engine<0, ~U(0)>>(c, s, pr, "range 2^64", seed); break;
    case 21: run_engine<std::independent_bits_engine<std::mt19937, 7, unsigned>>(c, s, pr, "independent_bits<7>", seed); break;
    case 22: run_engine<std::independent_bits_engine<std::mt19937, 14, unsigned>>(c, s, pr, "independent_bits<14>", seed); break;
    case 23: run_engine<std::independent_bits_engine<std::mt19937, 23, unsigned>>(c, s, pr, "independent_bits<23>", seed); break;
    case 24: run_engine<vf::range_engine<5, 1004>>(c, s, pr, "range [5,1004]", seed); break;
    default: run_scripted(c, s, pr, t.stream_seed()); break;
    }
    if (pr.pattern == 1 || pr.pattern == 2 || pr.pattern == 3 || pr.pattern == 4) { c.label("zero-or-non-finite-values"); }
    c.label(s.integrator == 0 ? "PLAIN" : s.integrator == 1 ? "VEGAS" : "MULTI");
    bool multi_draw = false;
    for (auto const& l : c.labels) { if (l == "multi-draw") { multi_draw = true; } }
    if (which >= 25) { multi_draw = true; } // exact zeros among the canonical numbers make the case non-trivial
    c.nontrivial = s.calls >= 2 && (multi_draw || pr.pattern == 3 || pr.pattern == 4 || pr.pattern == 1 || pr.pattern == 2);
}

} // namespace

vf::Property const vf::property = {"C10", "", run, nullptr, nullptr};
