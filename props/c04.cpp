// C04 - MPI runs sample the same points as the serial run for every world size.
// (also carries the shim-MPI clauses of C16, C19, C12 and C20: per-rank shares, state threading,
// identical stop decision, output on rank 0 only)
// The MPI integrators run on the in-process shim (lib/shim/mpi.h): ranks are threads scheduled one
// at a time in a generated arrival order, reductions are folded in a generated order.
// Oracle: differential against the serial *_iteration functions started from the generator and the
// adaptive state that the MPI checkpoint records for each iteration (generator via rollback on a copy).
// The numeric type is fixed per translation unit (-DVERIF_T=...).
#include <mpi.h> // the shim (this unit is compiled with -I lib/shim)

#include "hep/mc-mpi.hpp"

#include "../lib/runners.hpp"
#include "../lib/instruments.hpp"
#include "../lib/harness.hpp"

#include <dlfcn.h>
#include <iostream>

#ifndef VERIF_T
#define VERIF_T double
#endif

// the same harness serves the shim-MPI clauses of other properties: VERIF_AS selects which groups of assertions are
// active and under which property id a violation is reported (4 = C04: everything)
#ifndef VERIF_AS
#define VERIF_AS 4
#endif

namespace
{

using T = VERIF_T;

enum Cat { ALWAYS, DIFF, STATE, COLL, OUT, SHARE, POS, RANKS, DISTBINS };

constexpr bool cat_on(Cat k)
{
    // SHARE: per-rank call counts; POS: the shares are contiguous pieces of the serial stream and every rank ends at the
    // same position; STATE: result k+1 records the refinement of result k; COLL: collective sequences / iteration counts;
    // RANKS: all ranks return the same checkpoint; OUT: only rank 0 prints / writes; DIFF: counters and sums vs serial
    return k == ALWAYS || VERIF_AS == 4 || (VERIF_AS == 16 && (k == SHARE || k == POS)) || (VERIF_AS == 19 && (k == STATE || k == POS))
        || (VERIF_AS == 8 && k == STATE) || (VERIF_AS == 12 && (k == COLL || k == RANKS)) || (VERIF_AS == 20 && (k == OUT || k == RANKS))
        || (VERIF_AS == 18 && k == OUT) || (VERIF_AS == 7 && (k == STATE || k == RANKS)) || (VERIF_AS == 11 && k == DISTBINS)
        || (VERIF_AS == 2 && (k == DIFF || k == DISTBINS)) || (VERIF_AS == 3 && (k == STATE || k == RANKS))
        || (VERIF_AS == 1 && (k == DIFF || k == SHARE || k == DISTBINS)) || (VERIF_AS == 6 && (k == DIFF || k == DISTBINS))
        || (VERIF_AS == 10 && k == POS) || (VERIF_AS == 14 && (k == DIFF || k == DISTBINS)) || (VERIF_AS == 15 && (k == POS || k == STATE || k == DIFF));
}

#define VF_STR2(x) #x
#define VF_STR(x) VF_STR2(x)
#define MPI_SIG(name) ((VERIF_AS < 10 ? std::string("C0") + VF_STR(VERIF_AS) : std::string("C") + VF_STR(VERIF_AS)) + ":mpi-" + name)
#define MPI_CHECK(cat, ctx, cond, sig, streamed) do { if (cat_on(cat)) { VF_CHECK(ctx, cond, sig, streamed); } } while (0)

// --- who prints / who opens the checkpoint file ------------------------------------------------------
struct RankBuf : std::streambuf
{
    std::vector<std::size_t> chars = std::vector<std::size_t>(64, 0);
    void note(std::size_t n) { int const r = shim::World::current ? shim::World::rank : 63; chars[r < 63 ? r : 63] += n; }
    int overflow(int ch) override { note(1); return ch; }
    std::streamsize xsputn(char const*, std::streamsize n) override { note(static_cast<std::size_t>(n)); return n; }
};

std::string g_tracked_file;
std::vector<int> g_openers;

} // namespace

extern "C" FILE* fopen64(char const* path, char const* mode)
{
    static auto real = reinterpret_cast<FILE* (*)(char const*, char const*)>(::dlsym(RTLD_NEXT, "fopen64"));
    if (path && !g_tracked_file.empty() && std::strncmp(path, g_tracked_file.c_str(), g_tracked_file.size()) == 0 && shim::World::current)
    {
        g_openers.push_back(shim::World::rank);
    }
    return real(path, mode);
}

namespace
{

struct PointRec
{
    std::vector<T> point, coords;
    std::vector<std::size_t> bins;
    std::size_t channel = 0;
    bool operator==(PointRec const& o) const
    {
        return vf::same_bits(point, o.point) && vf::same_bits(coords, o.coords) && bins == o.bins && channel == o.channel;
    }
};

struct RankLog
{
    std::vector<PointRec> recs;
    std::vector<std::size_t> cuts;
    std::size_t limit = ~std::size_t(0); // no rank may evaluate more points than the whole run requests
};

struct LogFn
{
    vf::TestFn<T> fn;
    RankLog* log;

    static void extra(hep::vegas_point<T> const& p, PointRec& r) { r.bins = p.bin(); }
    static void extra(hep::multi_channel_point<T> const& p, PointRec& r) { r.channel = p.channel(); r.coords = p.coordinates(); }
    static void extra(hep::mc_point<T> const&, PointRec&) {}

    template <typename P>
    void record(P const& p) const
    {
        if (log->recs.size() >= log->limit) { throw std::runtime_error("a rank evaluates more points than all iterations together request (it would never return)"); }
        PointRec r;
        r.point = p.point();
        extra(p, r);
        log->recs.push_back(r);
    }
    template <typename P> T operator()(P const& p) const { record(p); return fn(p); }
    template <typename P> T operator()(P const& p, hep::projector<T>& proj) const { record(p); return fn(p, proj); }
};

// the callback handed to the MPI integrators (one type for the run under test and for the run that precedes it)
template <typename Chk>
struct LogCb
{
    hep::mpi_callback<Chk> inner;
    RankLog* log;
    bool operator()(MPI_Comm comm, Chk const& k) { log->cuts.push_back(log->recs.size()); return inner(comm, k); }
};

template <typename E> struct ename;
template <> struct ename<std::mt19937> { static char const* get() { return "mt19937"; } };
template <> struct ename<std::minstd_rand> { static char const* get() { return "minstd_rand"; } };
template <> struct ename<std::ranlux24> { static char const* get() { return "ranlux24"; } };
template <> struct ename<vf::range_engine<0, (1u << 14) - 1>> { static char const* get() { return "range 2^14"; } };
template <> struct ename<std::independent_bits_engine<std::mt19937, 7, unsigned>> { static char const* get() { return "independent_bits<7>"; } };

template <typename V>
bool close_enough(V a, V b, long double tol)
{
    return std::fabs(static_cast<long double>(a) - static_cast<long double>(b)) <= tol;
}

std::string first_diff(std::string const& a, std::string const& b)
{
    std::size_t i = 0;
    while (i < a.size() && i < b.size() && a[i] == b[i]) { ++i; }
    std::size_t const from = i > 30 ? i - 30 : 0;
    return "at byte " + std::to_string(i) + ": '" + a.substr(from, 70) + "' vs '" + b.substr(from, 70) + "'";
}

// compares a reduced MPI result with the serial one (counters exact, sums up to reassociation)
template <typename Res>
void compare_results(vf::Ctx& c, Res const& mpi, Res const& ser, std::size_t k, int P)
{
    long double const eps = vf::eps<T>();
    auto cmp = [&](hep::mc_result<T> const& a, hep::mc_result<T> const& b, std::string const& what, Cat cat) {
        if (!cat_on(cat)) { return; }
        MPI_CHECK(ALWAYS, c, a.calls() == b.calls() && a.non_zero_calls() == b.non_zero_calls() && a.finite_calls() == b.finite_calls(), MPI_SIG("counters"),
            "iteration " << k << ' ' << what << ": counters " << a.calls() << '/' << a.non_zero_calls() << '/' << a.finite_calls() << " (MPI) vs " << b.calls() << '/'
            << b.non_zero_calls() << '/' << b.finite_calls() << " (serial)");
        long double const n = static_cast<long double>(b.calls() ? b.calls() : 1);
        long double const bound = std::sqrt(n * static_cast<long double>(b.sum_of_squares())) + std::fabs(static_cast<long double>(b.sum()));
        long double const tol = 4 * (P + 2) * eps * bound + 1e-300L;
        c.note_margin(tol, std::fabs(static_cast<long double>(a.sum()) - b.sum()));
        MPI_CHECK(ALWAYS, c, close_enough(a.sum(), b.sum(), tol), MPI_SIG("sum"), "iteration " << k << ' ' << what << ": sum " << vf::show(a.sum()) << " (MPI) vs " << vf::show(b.sum()) << " (serial)");
        // the sum of squares is an uncompensated sum: two summation orders of n terms differ by up to ~ n eps
        MPI_CHECK(ALWAYS, c, close_enough(a.sum_of_squares(), b.sum_of_squares(), (n + 4 * (P + 2)) * eps * static_cast<long double>(b.sum_of_squares()) + 1e-300L), MPI_SIG("sum-of-squares"),
            "iteration " << k << ' ' << what << ": sum of squares " << vf::show(a.sum_of_squares()) << " vs " << vf::show(b.sum_of_squares()));
    };
    cmp(mpi, ser, "result", DIFF);
    MPI_CHECK(DISTBINS, c, mpi.distributions().size() == ser.distributions().size(), MPI_SIG("distributions"), "iteration " << k << ": distribution count");
    if (mpi.distributions().size() != ser.distributions().size()) { return; }
    for (std::size_t d = 0; d != ser.distributions().size(); ++d)
    {
        auto const& bm = mpi.distributions()[d].results();
        auto const& bs = ser.distributions()[d].results();
        MPI_CHECK(DISTBINS, c, bm.size() == bs.size(), MPI_SIG("distributions"), "iteration " << k << ": distribution " << d << " has " << bm.size() << " bins under MPI, " << bs.size() << " in the serial run");
        if (bm.size() != bs.size()) { continue; }
        MPI_CHECK(DISTBINS, c, mpi.distributions()[d].parameters().name() == ser.distributions()[d].parameters().name(), MPI_SIG("distributions"), "distribution name");
        for (std::size_t b = 0; b != bs.size(); ++b) { cmp(bm[b], bs[b], "distribution " + std::to_string(d) + " bin " + std::to_string(b), DISTBINS); }
    }
}

void compare_vectors(vf::Ctx& c, std::vector<T> const& mpi, std::vector<T> const& ser, std::size_t k, int P, char const* what, std::size_t n)
{
    MPI_CHECK(DIFF, c, mpi.size() == ser.size(), MPI_SIG("adjustment-data"), what << " size");
    for (std::size_t i = 0; i != ser.size(); ++i)
    {
        // uncompensated sums of up to n non-negative terms
        long double const tol = (n + 4 * (P + 2)) * vf::eps<T>() * std::fabs(static_cast<long double>(ser[i])) + 1e-300L;
        MPI_CHECK(DIFF, c, close_enough(mpi[i], ser[i], tol), MPI_SIG("adjustment-data"), "iteration " << k << ": " << what << '[' << i << "] " << vf::show(mpi[i]) << " (MPI) vs "
            << vf::show(ser[i]) << " (serial)");
    }
}

struct Schedule
{
    int P = 1;
    std::uint64_t seed = 0;
    bool tree = false;
    int split = 0;               // > 0: the iterations are performed by two integrator calls, the second resumes the first one's checkpoint
    bool badpath = false;        // the checkpoint path cannot be written (missing directory): no rank may behave differently because of it
    int gextra = 0, goffset = 0; // the communicator is ranks [goffset, goffset + P) of a global world with gextra more processes
    std::vector<int> perm(std::uint64_t salt) const
    {
        std::vector<int> v(P);
        for (int i = 0; i != P; ++i) { v[i] = i; }
        for (int i = P; i > 1; --i) { std::swap(v[i - 1], v[vf::mix2(seed ^ salt, static_cast<std::uint64_t>(i)) % static_cast<std::uint64_t>(i)]); }
        return v;
    }
};

template <typename E, int KIND> struct Mpi;

#define VF_WITH_INTEGRAND(CALL)                                                                                   \
    std::vector<hep::distribution_parameters<T>> const params = vf::to_params(cfg.fn.dists);                      \
    if (!params.empty()) { hep::integrand<T, LogFn, true> ig(fn, cfg.dims, params); return CALL; }                \
    hep::integrand<T, LogFn, false> ig(fn, cfg.dims, params);                                                     \
    return CALL;

#define VF_WITH_MC_INTEGRAND(CALL)                                                                                \
    std::vector<hep::distribution_parameters<T>> const params = vf::to_params(cfg.fn.dists);                      \
    vf::PwcMap<T> map{&cfg.fam, nullptr, nullptr};                                                                \
    if (!params.empty())                                                                                          \
    {                                                                                                             \
        hep::multi_channel_integrand<T, LogFn, vf::PwcMap<T>, true> ig(fn, cfg.dims, map, cfg.fam.map_dims, cfg.fam.channels, params); \
        return CALL;                                                                                              \
    }                                                                                                             \
    hep::multi_channel_integrand<T, LogFn, vf::PwcMap<T>, false> ig(fn, cfg.dims, map, cfg.fam.map_dims, cfg.fam.channels, params);    \
    return CALL;

template <typename E>
struct Mpi<E, vf::PLAIN>
{
    using R = vf::Plain<T, E>;
    using Chk = typename R::Chk;
    using Res = hep::plain_result<T>;
    template <typename Cb> static Chk run(shim::World* w, LogFn const& fn, vf::RunCfg<T> const& cfg, std::vector<std::size_t> const& calls, Chk const& start, Cb cb)
    {
        VF_WITH_INTEGRAND(hep::mpi_plain(w, ig, calls, start, cb))
    }
    static Res serial(LogFn const& fn, vf::RunCfg<T> const& cfg, std::size_t n, Chk const&, std::size_t, E& g)
    {
        VF_WITH_INTEGRAND(hep::plain_iteration(ig, n, g))
    }
    static void state_checks(vf::Ctx&, Chk const&, std::size_t, Res const&, int) {}
};

template <typename E>
struct Mpi<E, vf::VEGAS>
{
    using R = vf::Vegas<T, E>;
    using Chk = typename R::Chk;
    using Res = hep::vegas_result<T>;
    template <typename Cb> static Chk run(shim::World* w, LogFn const& fn, vf::RunCfg<T> const& cfg, std::vector<std::size_t> const& calls, Chk const& start, Cb cb)
    {
        VF_WITH_INTEGRAND(hep::mpi_vegas(w, ig, calls, start, cb))
    }
    static Res serial(LogFn const& fn, vf::RunCfg<T> const& cfg, std::size_t n, Chk const& chk, std::size_t k, E& g)
    {
        VF_WITH_INTEGRAND(hep::vegas_iteration(ig, n, chk.results()[k].pdf(), g))
    }
    static void state_checks(vf::Ctx& c, Chk const& chk, std::size_t k, Res const& ser, int P)
    {
        compare_vectors(c, chk.results()[k].adjustment_data(), ser.adjustment_data(), k, P, "VEGAS adjustment data", ser.calls());
        // C19 under MPI: iteration k+1 samples with exactly the refinement of what result k records
        if (k + 1 < chk.results().size())
        {
            auto const expect = hep::vegas_refine_pdf(chk.results()[k].pdf(), chk.alpha(), chk.results()[k].adjustment_data());
            auto const& got = chk.results()[k + 1].pdf();
            bool same = expect.bins() == got.bins() && expect.dimensions() == got.dimensions();
            for (std::size_t d = 0; same && d != got.dimensions(); ++d) { for (std::size_t b = 0; b <= got.bins(); ++b) { if (!vf::same_bits(expect.bin_left(d, b), got.bin_left(d, b))) { same = false; } } }
            if (VERIF_AS != 8) { MPI_CHECK(STATE, c, same, MPI_SIG("state-threading"), "MPI: result " << (k + 1) << " does not record the refinement of result " << k); }
        }
    }
};

template <typename E>
struct Mpi<E, vf::MULTI>
{
    using R = vf::Multi<T, E>;
    using Chk = typename R::Chk;
    using Res = hep::multi_channel_result<T>;
    template <typename Cb> static Chk run(shim::World* w, LogFn const& fn, vf::RunCfg<T> const& cfg, std::vector<std::size_t> const& calls, Chk const& start, Cb cb)
    {
        VF_WITH_MC_INTEGRAND(hep::mpi_multi_channel(w, ig, calls, start, cb))
    }
    static Res serial(LogFn const& fn, vf::RunCfg<T> const& cfg, std::size_t n, Chk const& chk, std::size_t k, E& g)
    {
        VF_WITH_MC_INTEGRAND(hep::multi_channel_iteration(ig, n, chk.results()[k].channel_weights(), g))
    }
    static void state_checks(vf::Ctx& c, Chk const& chk, std::size_t k, Res const& ser, int P)
    {
        // slots of disabled channels are documented as ignored
        std::vector<T> a = chk.results()[k].adjustment_data(), b = ser.adjustment_data();
        for (std::size_t j = 0; j != a.size(); ++j) { if (chk.results()[k].channel_weights()[j] == T(0)) { a[j] = b[j] = T(0); } }
        compare_vectors(c, a, b, k, P, "channel adjustment data", ser.calls());
        if (k + 1 < chk.results().size())
        {
            auto const expect = hep::multi_channel_refine_weights(chk.results()[k].channel_weights(), chk.results()[k].adjustment_data(), chk.min_weight(), chk.beta());
            if (VERIF_AS != 7) MPI_CHECK(STATE, c, vf::same_bits(expect, chk.results()[k + 1].channel_weights()), MPI_SIG("state-threading"), "MPI: result " << (k + 1) << " records weights "
                << vf::show(chk.results()[k + 1].channel_weights()) << ", the refinement of result " << k << " is " << vf::show(expect));
        }
    }
};

template <typename E, int KIND>
void run_case(vf::Ctx& c, vf::RunCfg<T> const& cfg, std::vector<std::size_t> const& calls, Schedule const& sch, int mode, T target)
{
    using M = Mpi<E, KIND>;
    using R = typename M::R;
    using Chk = typename M::Chk;
    int const P = sch.P;
    Chk const start = R::fresh(cfg);
    std::vector<RankLog> logs(P);
    {
        std::size_t total = 0;
        for (auto x : calls) { total += x; }
        for (auto& l : logs) { l.limit = total + 1; }
        vf::discard_limit::value() = 64ull * (total + 16) * (cfg.dims + 2) * 16;
    }
    std::vector<std::unique_ptr<Chk>> outs(P);
    {
        // an earlier run in the same process, through the same template instantiations, with another dimension, bin and
        // channel count: nothing of it may carry over into the run under test (each case is self-contained this way)
        vf::RunCfg<T> other = cfg;
        other.user_grid = false;
        other.user_weights = false;
        other.bins = cfg.bins % 7 + 2;
        other.seed = cfg.seed + 1;
        if (cfg.kind == vf::MULTI)
        {
            vf::Tape wt(std::vector<std::uint64_t>{cfg.fam.dims + 1, 3, 1, 4, 1, 5, 9, 2, 6});
            other.fam = vf::gen_pwc<T>(wt, 3, cfg.fam.channels % 3 + 1, 3);
            other.dims = other.fam.dims;
        }
        else { other.dims = cfg.dims % 3 + 1; }
        other.fn.dims = other.dims;
        shim::World before(P);
        std::vector<RankLog> wl(P);
        std::vector<std::size_t> const wcalls = {static_cast<std::size_t>(P) + 1};
        Chk const wstart = R::fresh(other);
        RankBuf quiet;
        std::streambuf* const o = std::cout.rdbuf(&quiet);
        before.run([&](int rank) {
            LogFn fn{other.fn, &wl[rank]};
            LogCb<Chk> cb{hep::mpi_callback<Chk>(hep::callback_mode::silent, "", T(0)), &wl[rank]};
            (void) M::run(&before, fn, other, wcalls, wstart, cb);
        });
        std::cout.rdbuf(o);
    }
    shim::World world(P);
    world.set_global(sch.gextra, sch.goffset);
    for (std::size_t r = 0; r != 64; ++r)
    {
        world.order.push_back(sch.perm(2 * r + 1));
        world.reduce_order.push_back(sch.perm(2 * r + 2));
        world.tree.push_back(sch.tree && (r % 2 == 0));
    }
    static hep::callback_mode const modes[] = {hep::callback_mode::silent, hep::callback_mode::verbose, hep::callback_mode::silent_and_write_chkpt,
        hep::callback_mode::verbose_and_write_chkpt};
    std::string const file = sch.badpath ? std::string("/nonexistent-vf-directory/run.c04chk")
        : (vf::files().cur.empty() ? std::string("/tmp/vf-c04-") + std::to_string(::getpid()) : vf::files().cur) + ".c04chk";
    std::remove(file.c_str());
    g_tracked_file = file.substr(0, file.size() - 7); // any temporary file next to it that shares the stem counts as well
    g_openers.clear();
    RankBuf rb;
    std::streambuf* const old = std::cout.rdbuf(&rb);
    world.run([&](int rank) {
        LogFn fn{cfg.fn, &logs[rank]};
        RankLog* const log = &logs[rank];
        LogCb<Chk> cb{hep::mpi_callback<Chk>(modes[mode], file, target), log};
        if (sch.split > 0 && static_cast<std::size_t>(sch.split) < calls.size())
        {
            // the campaign in two integrator calls: the second one continues the checkpoint the first one returned
            std::vector<std::size_t> const head(calls.begin(), calls.begin() + sch.split), tail(calls.begin() + sch.split, calls.end());
            Chk const mid = M::run(&world, fn, cfg, head, start, cb);
            if (mid.results().size() < head.size()) { outs[rank].reset(new Chk(mid)); } // the callback ended the campaign already
            else { outs[rank].reset(new Chk(M::run(&world, fn, cfg, tail, mid, cb))); }
        }
        else { outs[rank].reset(new Chk(M::run(&world, fn, cfg, calls, start, cb))); }
    });
    std::cout.rdbuf(old);
    g_tracked_file.clear();

    MPI_CHECK(ALWAYS, c, !world.hang(), MPI_SIG("hang"), "the ranks do not execute the same sequence of collectives: " << world.hang_text());
    MPI_CHECK(ALWAYS, c, world.errors().empty(), MPI_SIG("collective-mismatch"), (world.errors().empty() ? std::string() : world.errors()[0]));
    for (int r = 0; r != P; ++r) { MPI_CHECK(ALWAYS, c, outs[r] != nullptr, MPI_SIG("rank-failed"), "rank " << r << " did not return a checkpoint"); }
    for (int r = 1; r != P; ++r)
    {
        MPI_CHECK(COLL, c, world.log()[r] == world.log()[0], MPI_SIG("collective-sequence"), "rank " << r << " issued " << world.log()[r].size() << " collectives, rank 0 " << world.log()[0].size()
            << " (or with different counts / datatypes)");
    }
    for (int r = 1; r != P; ++r)
    {
        MPI_CHECK(POS, c, outs[r]->generator() == outs[0]->generator(), MPI_SIG("end-position"), "rank " << r << " ends at a different position of the random number stream than rank 0");
    }
    std::string const text0 = vf::text_of(*outs[0]);
    for (int r = 1; r != P; ++r)
    {
        std::string const tr = vf::text_of(*outs[r]);
        MPI_CHECK(RANKS, c, tr == text0, MPI_SIG("ranks-differ"), "rank " << r << " returns a different checkpoint than rank 0: " << first_diff(text0, tr));
    }
    // output and files on rank 0 only
    for (int r = 1; r != P; ++r) { MPI_CHECK(OUT, c, rb.chars[r] == 0, MPI_SIG("non-root-output"), "rank " << r << " wrote " << rb.chars[r] << " characters to std::cout"); }
    bool const verbose = mode == 1 || mode == 3, writes = mode >= 2;
    Chk const& chk = *outs[0];
    std::size_t const performed = chk.results().size();
    if (performed > 0) { MPI_CHECK(OUT, c, (rb.chars[0] > 0) == verbose, MPI_SIG("root-output"), "rank 0 printed " << rb.chars[0] << " characters in mode " << mode); }
    for (int r : g_openers) { MPI_CHECK(OUT, c, r == 0, MPI_SIG("non-root-file"), "rank " << r << " opened the checkpoint file for writing"); }
    if (writes && performed > 0 && !sch.badpath)
    {
        std::ifstream in(file);
        MPI_CHECK(OUT, c, in.good(), MPI_SIG("file-missing"), "no rank wrote the checkpoint file");
        std::stringstream ss;
        ss << in.rdbuf();
        MPI_CHECK(OUT, c, ss.str() == text0, MPI_SIG("file-differs"), "the checkpoint file differs from the returned checkpoint");
    }
    std::remove(file.c_str());
    std::remove((file + ".tmp").c_str());
    std::remove((file.substr(0, file.size() - 7) + ".tmp").c_str());

    MPI_CHECK(COLL, c, performed <= calls.size() && (target > T(0) || performed == calls.size()), MPI_SIG("iterations"), "performed " << performed << " of " << calls.size() << " iterations");
    for (int r = 0; r != P; ++r) { MPI_CHECK(COLL, c, logs[r].cuts.size() == performed, MPI_SIG("callback-count"), "rank " << r << " saw " << logs[r].cuts.size() << " callbacks for " << performed << " iterations"); }

    // per iteration: the serial iteration from the recorded generator and state
    for (std::size_t k = 0; k != performed; ++k)
    {
        Chk before = chk, after = chk;
        before.rollback(k);
        after.rollback(k + 1);
        E gen = before.generator();
        RankLog slog;
        LogFn sfn{cfg.fn, &slog};
        auto const serial = M::serial(sfn, cfg, calls[k], chk, k, gen);
        // (1) the ranks' shares tile the calls (C16 under the shim)
        std::size_t total = 0;
        std::vector<PointRec> concat;
        for (int r = 0; r != P; ++r)
        {
            std::size_t const b0 = k ? logs[r].cuts[k - 1] : 0, b1 = logs[r].cuts[k];
            std::size_t const share = b1 - b0;
            std::size_t const lo = calls[k] / P, rem = calls[k] % P;
            MPI_CHECK(SHARE, c, share == lo + (static_cast<std::size_t>(r) < rem ? 1 : 0), MPI_SIG("share"), "iteration " << k << ": rank " << r << " evaluated " << share << " points of " << calls[k]
                << " with " << P << " ranks");
            total += share;
            concat.insert(concat.end(), logs[r].recs.begin() + b0, logs[r].recs.begin() + b1);
        }
        MPI_CHECK(SHARE, c, total == calls[k], MPI_SIG("share-sum"), "iteration " << k << ": the ranks evaluated " << total << " points in total, requested " << calls[k]);
        // (2) the same points in rank order
        MPI_CHECK(DIFF, c, slog.recs.size() == calls[k], MPI_SIG("serial-reference"), "serial reference evaluated " << slog.recs.size());
        for (std::size_t i = 0; i != concat.size(); ++i)
        {
            MPI_CHECK(POS, c, concat[i] == slog.recs[i], MPI_SIG("points-differ"), "iteration " << k << ": point " << i << " of the concatenated rank logs differs from the serial run from the same state: "
                << vf::show(concat[i].point) << " vs " << vf::show(slog.recs[i].point) << " (calls " << calls[k] << ", " << P << " ranks)");
        }
        // (3) the stored generator
        MPI_CHECK(POS, c, gen == after.generator(), MPI_SIG("generator"), "iteration " << k << ": the generator stored by the MPI run is not the serial generator after " << calls[k] << " calls");
        // (4) counters, sums, adaptive data
        compare_results(c, static_cast<hep::plain_result<T> const&>(chk.results()[k]), static_cast<hep::plain_result<T> const&>(serial), k, P);
        M::state_checks(c, chk, k, serial, P);
        c.sub += calls[k];
    }
}

} // namespace

namespace
{

std::size_t pick_calls(vf::Tape& t, int P)
{
    static std::size_t const primes[] = {2, 3, 5, 7, 11, 13, 17, 31, 61, 127, 251, 509, 1021, 2039};
    switch (t.pick(9))
    {
    case 0: return 0;
    case 1: return 1;
    case 2: return static_cast<std::size_t>(P > 1 ? P - 1 : 1);
    case 3: return static_cast<std::size_t>(P);
    case 4: return static_cast<std::size_t>(P + 1);
    case 5: return primes[t.pick(14)];
    case 6: return static_cast<std::size_t>(P) * (1 + t.range(0, 40));
    case 7: return t.range(0, 3000);
    default: return t.range(0, 200);
    }
}

// --- totals beyond 2^31: per-rank shares and end positions with a counting integrand ---------------------------
// (an int / 32-bit slip in a share only shows there; the points are not logged, only counted)
struct counter_engine
{
    using result_type = std::uint64_t;
    std::uint64_t n = 0;
    counter_engine() = default;
    explicit counter_engine(std::uint64_t seed) : n(seed) {}
    static constexpr result_type min() { return 0; }
    static constexpr result_type max() { return ~static_cast<result_type>(0); }
    result_type operator()() { return vf::splitmix64(n++); }
    void discard(unsigned long long k) { n += k; }
    friend bool operator==(counter_engine const& a, counter_engine const& b) { return a.n == b.n; }
    friend bool operator!=(counter_engine const& a, counter_engine const& b) { return a.n != b.n; }
    friend std::ostream& operator<<(std::ostream& o, counter_engine const& e) { return o << e.n; }
    friend std::istream& operator>>(std::istream& i, counter_engine& e) { return i >> e.n; }
};

struct CountFn
{
    std::uint64_t* count;
    std::uint64_t limit;
    T operator()(hep::mc_point<T> const&) const
    {
        if (++*count > limit) { throw std::runtime_error("a rank evaluates more points than the whole iteration requests"); }
        return T(1);
    }
};

T unit_map(std::size_t, std::vector<T> const& rn, std::vector<T>& coords, std::vector<std::size_t> const& enabled, std::vector<T>& dens, hep::multi_channel_map action)
{
    if (action == hep::multi_channel_map::calculate_densities) { for (auto ch : enabled) { dens[ch] = T(1); } return T(1); }
    coords[0] = rn[0];
    return T(1);
}

void run_huge(vf::Ctx& c, int kind, int P, std::uint64_t total)
{
    using E = counter_engine;
    std::vector<std::uint64_t> counts(P, 0);
    std::vector<std::uint64_t> endpos(P, 0);
    std::vector<std::uint64_t> reported(P, 0), nonzero(P, 0), finite(P, 0);
    shim::World world(P);
    std::vector<std::size_t> const calls = {static_cast<std::size_t>(total)};
    c.desc << vf::type_name<T>::get() << " huge total=" << total << " P=" << P << (kind == 0 ? " mpi_plain" : kind == 1 ? " mpi_vegas" : " mpi_multi_channel");
    world.run([&](int rank) {
        CountFn fn{&counts[rank], total};
        auto go = [](MPI_Comm, auto const&) { return true; };
        if (kind == 0)
        {
            auto chk = hep::mpi_plain(&world, hep::make_integrand<T>(fn, 1), calls, hep::make_plain_chkpt<T, E>(E(0)), go);
            endpos[rank] = chk.generator().n; reported[rank] = chk.results().at(0).calls();
            nonzero[rank] = chk.results().at(0).non_zero_calls(); finite[rank] = chk.results().at(0).finite_calls();
        }
        else if (kind == 1)
        {
            auto chk = hep::mpi_vegas(&world, hep::make_integrand<T>(fn, 1), calls, hep::make_vegas_chkpt<T, E>(4, T(1.5), E(0)), go);
            endpos[rank] = chk.generator().n; reported[rank] = chk.results().at(0).calls();
            nonzero[rank] = chk.results().at(0).non_zero_calls(); finite[rank] = chk.results().at(0).finite_calls();
        }
        else
        {
            auto chk = hep::mpi_multi_channel(&world, hep::make_multi_channel_integrand<T>(fn, 1, unit_map, 1, 2), calls, hep::make_multi_channel_chkpt<T, E>(T(0), T(0.25), E(0)), go);
            endpos[rank] = chk.generator().n; reported[rank] = chk.results().at(0).calls();
            nonzero[rank] = chk.results().at(0).non_zero_calls(); finite[rank] = chk.results().at(0).finite_calls();
        }
    });
    MPI_CHECK(ALWAYS, c, !world.hang(), MPI_SIG("hang"), world.hang_text());
    MPI_CHECK(ALWAYS, c, world.errors().empty(), MPI_SIG("collective-mismatch"), (world.errors().empty() ? std::string() : world.errors()[0]));
    std::uint64_t sum = 0;
    std::uint64_t const k = vf::draws_per_canonical<T, E>() * (kind == 2 ? 2 : 1);
    for (int r = 0; r != P; ++r)
    {
        std::uint64_t const expect = total / P + (static_cast<std::uint64_t>(r) < total % P ? 1 : 0);
        MPI_CHECK(SHARE, c, counts[r] == expect, MPI_SIG("share"), "total " << total << ", " << P << " ranks: rank " << r << " evaluated " << counts[r] << " points, its share is " << expect);
        MPI_CHECK(POS, c, endpos[r] == total * k, MPI_SIG("end-position"), "total " << total << ": rank " << r << " ends at stream position " << endpos[r] << " instead of " << total * k);
        MPI_CHECK(DIFF, c, reported[r] == total, MPI_SIG("counters"), "calls() = " << reported[r]);
        MPI_CHECK(DIFF, c, nonzero[r] == total && finite[r] == total, MPI_SIG("counters"), "total " << total << " calls of a non-zero finite integrand: non_zero_calls() = " << nonzero[r]
            << ", finite_calls() = " << finite[r]);
        sum += counts[r];
    }
    MPI_CHECK(SHARE, c, sum == total, MPI_SIG("share-sum"), "the ranks evaluated " << sum << " points in total, requested " << total);
    c.sub += total;
    c.label(total >= (1ull << 31) ? "total>=2^31" : "total>=2^24");
    c.nontrivial = true;
}

constexpr std::uint64_t HUGE_MAGIC = 0xC16B16C16B16ull;

void enumerate(vf::Enum& e)
{
    if (VERIF_AS == 4)
    {
        // counters beyond the integers T can represent (float: 2^24 + 3 calls), all three integrators, three ranks
        if (!std::is_same<T, float>::value) { return; }
        for (std::uint64_t kind = 0; kind != 3; ++kind) { if (!e.exec({HUGE_MAGIC, kind, 2, (1ull << 24) + 3})) { return; } }
        e.space = "counters, per-rank shares and end positions for 2^24 + 3 calls (float)";
        return;
    }
    if (!(cat_on(SHARE) && cat_on(POS))) { return; }
    // 2^31 + 2 calls over three ranks (PLAIN in the quick tier; all three integrators and 2^32 + 5 in the thorough tier)
    if (!e.exec({HUGE_MAGIC, 0, 3, (1ull << 31) + 2})) { return; }
    if (vf::thorough())
    {
        if (!e.exec({HUGE_MAGIC, 1, 3, (1ull << 31) + 2})) { return; }
        if (!e.exec({HUGE_MAGIC, 2, 3, (1ull << 31) + 2})) { return; }
        if (!e.exec({HUGE_MAGIC, 0, 5, (1ull << 32) + 7})) { return; }
    }
    e.space = "per-rank shares and end positions for totals of 2^31 + 2 (and 2^32 + 7) calls";
}

void run(vf::Ctx& c)
{
    vf::Tape& t = c.t;
    if (!t.data().empty() && t.data()[0] == HUGE_MAGIC)
    {
        (void) t.next();
        int const kind = static_cast<int>(t.next() % 3);
        int const P = 1 + static_cast<int>(t.next() % 8);
        std::uint64_t const total = t.next();
        run_huge(c, kind, P, total);
        return;
    }
    Schedule sch;
    switch (t.pick(5))
    {
    case 0: sch.P = 1 + static_cast<int>(t.pick(4)); break;
    case 1: sch.P = 1 + static_cast<int>(t.pick(8)); break;
    case 2: sch.P = 2 + static_cast<int>(t.pick(32)); break;
    case 3: sch.P = 3; break;
    default: sch.P = 1 + static_cast<int>(t.pick(16)); break;
    }
    sch.seed = t.stream_seed();
    sch.tree = t.flag();
    vf::RunCfg<T> cfg = vf::gen_cfg<T>(t);
    if (t.pick(5) < (VERIF_AS == 6 ? 3 : 1)) { cfg.fn.family = 9; } // zero / finite / non-finite by region: the counters differ from each other
    std::size_t const n = 1 + t.pick(4);
    std::vector<std::size_t> calls;
    for (std::size_t i = 0; i != n; ++i) { calls.push_back(pick_calls(t, sch.P)); }
    int const mode = static_cast<int>(t.pick(4));
    T const target = t.pick(4) == 0 ? static_cast<T>(std::pow(10.0L, -2.0L * t.unit())) : T(0);
    std::size_t const engine = t.pick(5);
    if (t.pick(4) == 1)
    {
        sch.gextra = 1 + static_cast<int>(t.pick(6));
        sch.goffset = static_cast<int>(t.pick(static_cast<std::size_t>(sch.gextra) + 1));
    }
    sch.badpath = t.pick(6) == 1;
    if (t.pick(3) == 1 && n >= 2) { sch.split = 1 + static_cast<int>(t.pick(n - 1)); }
    if (t.pick(8) == 1) { cfg.fn.family = 12; } // the integrand returns zero everywhere but fills its distributions
    c.desc << vf::type_name<T>::get() << " P=" << sch.P << " calls=" << vf::show(calls) << " mode=" << mode << " target=" << vf::show(target) << " schedule=" << sch.seed % 100000
           << (sch.tree ? " tree-reduction" : " linear-reduction") << " engine#" << engine
           << (sch.badpath ? " unwritable-path" : "") << (sch.split ? " continued-after-" + std::to_string(sch.split) : std::string()) << (sch.gextra ? " sub-communicator of a world with " + std::to_string(sch.P + sch.gextra) + " processes (offset " + std::to_string(sch.goffset) + ")" : std::string()) << ' ' << cfg.describe();
#define VF_DISPATCH(EE)                                                                                          \
    {                                                                                                            \
        using GE = vf::guard_engine<EE>;                                                                         \
        switch (cfg.kind)                                                                                        \
        {                                                                                                        \
        case vf::PLAIN: run_case<GE, vf::PLAIN>(c, cfg, calls, sch, mode, target); break;                       \
        case vf::VEGAS: run_case<GE, vf::VEGAS>(c, cfg, calls, sch, mode, target); break;                       \
        default: run_case<GE, vf::MULTI>(c, cfg, calls, sch, mode, target); break;                              \
        }                                                                                                        \
    }
    using RE = vf::range_engine<0, (1u << 14) - 1>;
    using IB = std::independent_bits_engine<std::mt19937, 7, unsigned>;
    switch (engine)
    {
    case 0: VF_DISPATCH(std::mt19937) c.label("engine:mt19937"); break;
    case 1: VF_DISPATCH(std::minstd_rand) c.label("engine:minstd_rand"); break;
    case 2: VF_DISPATCH(std::ranlux24) c.label("engine:ranlux24"); break;
    case 3: VF_DISPATCH(RE) c.label("engine:range 2^14"); break;
    default: VF_DISPATCH(IB) c.label("engine:independent_bits<7>"); break;
    }
#undef VF_DISPATCH
    bool uneven = false;
    for (auto x : calls) { if (x % static_cast<std::size_t>(sch.P) != 0 || x < static_cast<std::size_t>(sch.P)) { uneven = true; } }
    if (uneven && sch.P >= 2) { c.label("uneven-split"); }
    for (auto x : calls) { if (x < static_cast<std::size_t>(sch.P)) { c.label("calls<P"); break; } }
    if (sch.P >= 9) { c.label("P>=9"); }
    if (sch.gextra) { c.label("sub-communicator"); }
    if (sch.split) { c.label("continued-checkpoint"); }
    if (cfg.fn.family == 12) { c.label("zero-integrand-with-filled-distributions"); }
    if (sch.badpath && mode >= 2) { c.label("unwritable-checkpoint-path"); }
    if (target > T(0)) { c.label("positive-target"); }
    if (!cfg.fn.dists.empty()) { c.label("with-distributions"); }
    if (cfg.fn.family == 9) { c.label("non-finite-region"); }
    c.label(cfg.kind == vf::PLAIN ? "PLAIN" : cfg.kind == vf::VEGAS ? "VEGAS" : "MULTI");
    c.nontrivial = sch.P >= 2 && uneven;
}

} // namespace

#if VERIF_AS == 4
vf::Property const vf::property = {"C04", "", run, enumerate, nullptr};
#elif VERIF_AS == 8
vf::Property const vf::property = {"C08", "", run, nullptr, nullptr};
#elif VERIF_AS == 2
vf::Property const vf::property = {"C02", "", run, nullptr, nullptr};
#elif VERIF_AS == 3
vf::Property const vf::property = {"C03", "", run, nullptr, nullptr};
#elif VERIF_AS == 7
vf::Property const vf::property = {"C07", "", run, nullptr, nullptr};
#elif VERIF_AS == 11
vf::Property const vf::property = {"C11", "", run, nullptr, nullptr};
#elif VERIF_AS == 18
vf::Property const vf::property = {"C18", "", run, nullptr, nullptr};
#elif VERIF_AS == 12
vf::Property const vf::property = {"C12", "", run, nullptr, nullptr};
#elif VERIF_AS == 16
vf::Property const vf::property = {"C16", "", run, enumerate, nullptr};
#elif VERIF_AS == 19
vf::Property const vf::property = {"C19", "", run, nullptr, nullptr};
#elif VERIF_AS == 1
vf::Property const vf::property = {"C01", "", run, nullptr, nullptr};
#elif VERIF_AS == 6
vf::Property const vf::property = {"C06", "", run, nullptr, nullptr};
#elif VERIF_AS == 10
vf::Property const vf::property = {"C10", "", run, nullptr, nullptr};
#elif VERIF_AS == 14
vf::Property const vf::property = {"C14", "", run, nullptr, nullptr};
#elif VERIF_AS == 15
vf::Property const vf::property = {"C15", "", run, nullptr, nullptr};
#else
vf::Property const vf::property = {"C20", "", run, nullptr, nullptr};
#endif
