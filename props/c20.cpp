// C20 - reporting never changes or breaks a run.
// (a) run layer: the same run under the four modes of the built-in callback (std::cout redirected,
//     files in a scratch location): the checkpoint returned and every checkpoint shown to later
//     iterations are byte-identical across the modes, the file equals that text, printing returns
//     normally. Multi-channel with 1..40 channels and weight patterns (equal, all but one at the
//     floor, increasing, ties, disabled channels, more than 12 non-minimal channels), integrands
//     zero / constant / non-finite / ordinary, target 0 or positive.
// (b) direct layer: multi_channel_summary / multi_channel_weight_info on checkpoints assembled from
//     generated valid weight vectors: structural checks on what is printed.
#include "../lib/runners.hpp"
#include "../lib/harness.hpp"

#include <fstream>
#include <iostream>
#include <set>

namespace
{

struct CaptureBuf : std::streambuf
{
    std::string text;
    int overflow(int ch) override { if (ch != EOF) { text.push_back(static_cast<char>(ch)); } return ch; }
    std::streamsize xsputn(char const* s, std::streamsize n) override { text.append(s, static_cast<std::size_t>(n)); return n; }
};

struct CoutCapture
{
    CaptureBuf buf;
    std::streambuf* old;
    CoutCapture() : old(std::cout.rdbuf(&buf)) {}
    ~CoutCapture() { std::cout.rdbuf(old); std::cout.clear(); }
};

std::string scratch_file()
{
    std::string base = vf::files().cur.empty() ? std::string("/tmp/vf-c20-") + std::to_string(::getpid()) : vf::files().cur;
    return base + ".c20chk";
}

template <typename T>
std::vector<T> weight_pattern(vf::Tape& t, std::size_t n, std::string& how)
{
    std::vector<T> w(n, T(1));
    switch (t.pick(7))
    {
    case 0: how = "equal"; break;
    case 1: how = "one-large"; for (auto& x : w) { x = T(1e-6); } w[t.pick(n)] = T(1); break;
    case 2: how = "increasing"; for (std::size_t i = 0; i != n; ++i) { w[i] = T(i + 1); } break;
    case 3: how = "ties"; for (std::size_t i = 0; i != n; ++i) { w[i] = T(1 + i % 3); } break;
    case 4: how = "disabled"; for (std::size_t i = 0; i != n; ++i) { w[i] = (i % 3 == 0 && i + 1 < n) ? T(0) : T(1 + i); } break;
    case 5: how = "two-minimal-many-distinct"; for (std::size_t i = 0; i != n; ++i) { w[i] = T(i < 2 ? 1 : i + 1); } break;
    default: how = "generated"; w = vf::gen_weights<T>(t, n); w.resize(n, T(1)); break;
    }
    bool any = false;
    for (auto x : w) { if (x > T(0)) { any = true; } }
    if (!any) { w[0] = T(1); }
    return w;
}

// every "#<k>" the summary prints must be a channel; ranges "a-b" are expanded
std::vector<std::size_t> channel_refs(std::string const& line, std::size_t from)
{
    std::vector<std::size_t> out;
    std::size_t i = line.find('#', from);
    if (i == std::string::npos) { return out; }
    ++i;
    while (i < line.size())
    {
        std::size_t a = 0, digits = 0;
        while (i < line.size() && std::isdigit(static_cast<unsigned char>(line[i]))) { a = a * 10 + (line[i] - '0'); ++i; ++digits; }
        if (!digits) { break; }
        std::size_t b = a;
        if (i < line.size() && line[i] == '-')
        {
            ++i; b = 0;
            while (i < line.size() && std::isdigit(static_cast<unsigned char>(line[i]))) { b = b * 10 + (line[i] - '0'); ++i; }
        }
        for (std::size_t k = a; k <= b && k - a < 100000; ++k) { out.push_back(k); }
        if (i < line.size() && line[i] == ',') { ++i; continue; }
        break;
    }
    return out;
}

template <typename T>
void check_summary(vf::Ctx& c, hep::multi_channel_result<T> const& res, std::string const& text)
{
    std::size_t const n = res.channel_weights().size();
    hep::multi_channel_weight_info<T> const info(res);
    // weight info: a permutation sorted by weight, expected calls, minimal group
    VF_CHECK(c, info.channels().size() == n && info.weights().size() == n && info.calls().size() == n, "C20:info-size", "weight info sizes");
    std::set<std::size_t> seen(info.channels().begin(), info.channels().end());
    VF_CHECK(c, seen.size() == n && (n == 0 || *seen.rbegin() == n - 1), "C20:info-permutation", "channels() is not a permutation of 0.." << n - 1);
    for (std::size_t i = 0; i != n; ++i)
    {
        VF_CHECK(c, vf::same_bits(info.weights()[i], res.channel_weights()[info.channels()[i]]), "C20:info-weights", "weights()[" << i << "] is not the weight of channels()[" << i << "]");
        if (i) { VF_CHECK(c, !(info.weights()[i] < info.weights()[i - 1]), "C20:info-order", "weights() not ascending"); }
    }
    std::size_t const mincount = info.minimal_weight_count();
    VF_CHECK(c, mincount >= 1 && mincount <= n, "C20:info-min-count", "minimal_weight_count " << mincount << " of " << n);
    std::set<std::size_t> expect_min;
    for (std::size_t i = 0; i != n; ++i) { if (info.calls()[i] == info.calls().front()) { expect_min.insert(info.channels()[i]); } }
    auto const mins = hep::minimal_weight_channels(info);
    VF_CHECK(c, std::set<std::size_t>(mins.begin(), mins.end()) == expect_min, "C20:info-min-set", "minimal_weight_channels is not the set with the minimal expected call count");

    // the printed text
    std::istringstream in(text);
    std::string line;
    bool saw_header = false, saw_min = false;
    std::size_t printed_w = 0;
    while (std::getline(in, line))
    {
        if (line.compare(0, 27, "summary of a-priori weights") == 0) { saw_header = true; continue; }
        if (line.compare(0, 5, "wmin=") == 0)
        {
            saw_min = true;
            std::size_t const colon = line.find(": #");
            VF_CHECK(c, colon != std::string::npos, "C20:summary-format", "wmin line without channel list: " << line);
            auto const refs = channel_refs(line, colon);
            VF_CHECK(c, std::set<std::size_t>(refs.begin(), refs.end()) == expect_min && refs.size() == expect_min.size(), "C20:summary-min-list",
                "the printed minimal-weight channel list '" << line << "' is not the set of channels with the minimal expected call count");
            continue;
        }
        bool const wline = line.compare(0, 5, "   w=") == 0 || line.compare(0, 5, "wmax=") == 0;
        if (wline)
        {
            ++printed_w;
            std::size_t const pos = line.find("in channel #");
            VF_CHECK(c, pos != std::string::npos, "C20:summary-format", "weight line without channel: " << line);
            auto const refs = channel_refs(line, pos);
            VF_CHECK(c, refs.size() == 1 && refs[0] < n, "C20:summary-channel-index", "printed channel index out of range in '" << line << "' (" << n << " channels)");
            long double const w = std::strtold(line.c_str() + 5, nullptr);
            long double const wmin = info.weights().front(), wmax = info.weights().back();
            VF_CHECK(c, w >= wmin * (1 - 1e-4L) - 1e-300L && w <= wmax * (1 + 1e-4L), "C20:summary-weight-range", "printed weight " << vf::show<long double>(w)
                << " outside [wmin, wmax] in '" << line << "'");
            // the printed weight belongs to the printed channel (6 significant digits in the default format)
            long double const actual = res.channel_weights()[refs[0]];
            VF_CHECK(c, std::fabs(w - actual) <= 1e-4L * std::fabs(actual) + 1e-300L, "C20:summary-weight-of-channel", "'" << line << "' but channel " << refs[0]
                << " has weight " << vf::show<long double>(actual));
            if (line.compare(0, 5, "wmax=") == 0) { VF_CHECK(c, std::fabs(w - wmax) <= 1e-4L * wmax, "C20:summary-wmax", "wmax line prints " << vf::show<long double>(w)); }
        }
    }
    VF_CHECK(c, saw_header && saw_min, "C20:summary-format", "summary without header or wmin line");
    // a channel is never printed twice beyond the 2*5+1 abbreviation rule: at most n - mincount lines
    VF_CHECK(c, printed_w <= n - mincount, "C20:summary-lines", printed_w << " weight lines for " << n - mincount << " non-minimal channels");
}

template <typename T>
void summary_if_multi(vf::Ctx& c, hep::multi_channel_result<T> const& last, std::string const& printed)
{
    std::size_t const pos = printed.rfind("summary of a-priori weights");
    VF_CHECK(c, pos != std::string::npos, "C20:summary-missing", "verbose multi-channel run printed no weight summary");
    // the last summary block ends where the per-iteration result lines start
    std::size_t const end = printed.find("this iteration:", pos);
    check_summary<T>(c, last, printed.substr(pos, end == std::string::npos ? std::string::npos : end - pos));
}

template <typename T, typename Result>
void summary_if_multi(vf::Ctx&, Result const&, std::string const&)
{
}

template <typename T, typename R>
void run_layer(vf::Ctx& c, vf::RunCfg<T> const& cfg, std::vector<std::size_t> const& all_calls, T target, bool& unequal, int path_kind, bool fewer_dists)
{
    using Chk = typename R::Chk;
    // optionally the run under test continues a checkpoint with an integrand that has one distribution less than the one the
    // first iteration was made with (results of different layouts in one checkpoint): whatever happens then - a checkpoint
    // or an exception out of the combination of the results - has to happen in all four modes alike
    vf::RunCfg<T> cfg2 = cfg;
    Chk start = R::fresh(cfg);
    std::vector<std::size_t> calls = all_calls;
    if (fewer_dists)
    {
        *cfg.fn.counter = 0;
        start = R::run(cfg, start, std::vector<std::size_t>(all_calls.begin(), all_calls.begin() + 1), [](Chk const&) { return true; });
        calls.erase(calls.begin());
        cfg2.fn.dists.pop_back();
    }
    std::size_t const counter_start = *cfg.fn.counter;
    static hep::callback_mode const modes[] = {hep::callback_mode::silent, hep::callback_mode::silent_and_write_chkpt, hep::callback_mode::verbose,
        hep::callback_mode::verbose_and_write_chkpt};
    // an unwritable checkpoint path (missing directory) must not change or break the run either: the writing modes
    // then simply cannot leave a file
    // (path_kind 2: the default, empty file name - the writing modes cannot leave a file either)
    bool const unwritable = path_kind != 0;
    std::string const file = path_kind == 1 ? std::string("/nonexistent-directory-for-c20/run.chkpt") : path_kind == 2 ? std::string() : scratch_file();
    std::vector<std::string> final_text(4);
    std::vector<std::vector<std::string>> seen(4);
    for (int m = 0; m != 4; ++m)
    {
        std::remove(file.c_str());
        *cfg.fn.counter = counter_start;
        std::string printed;
        bool threw = false;
        {
            CoutCapture cap;
            hep::callback<Chk> inner(modes[m], file, target);
            auto& texts = seen[m];
            auto cb = [inner, &texts](Chk const& k) mutable { texts.push_back(vf::text_of(k)); return inner(k); };
            try
            {
                Chk const out = R::run(cfg2, start, calls, cb);
                final_text[m] = vf::text_of(out);
                printed = cap.buf.text;
                if (m >= 2 && !out.results().empty() && !fewer_dists) { summary_if_multi<T>(c, out.results().back(), printed); }
            }
            catch (std::exception const& e)
            {
                if (!fewer_dists) { throw; }
                threw = true;
                final_text[m] = std::string("exception: ") + e.what();
            }
            VF_CHECK(c, std::cout.good(), "C20:cout-state", "std::cout is not good() after a run in mode " << m);
        }
        bool const writes = (m == 1 || m == 3);
        bool const prints = m >= 2;
        if (!calls.empty() && !threw && !fewer_dists)
        {
            VF_CHECK(c, prints == !printed.empty(), "C20:printing", "mode " << m << (printed.empty() ? " printed nothing" : " printed although silent"));
            std::ifstream in(file);
            if (unwritable) { VF_CHECK(c, !in.good(), "C20:unexpected-file", "a file appeared at an unwritable path"); }
            else if (writes)
            {
                std::stringstream ss;
                ss << in.rdbuf();
                VF_CHECK(c, in.good() || in.eof(), "C20:file-missing", "mode " << m << " did not write the checkpoint file");
                VF_CHECK(c, ss.str() == final_text[m], "C20:file-differs", "mode " << m << ": the file differs from serialize() of the returned checkpoint");
            }
            else { VF_CHECK(c, !in.good(), "C20:unexpected-file", "mode " << m << " wrote a file"); }
        }
        ++c.sub;
    }
    if (!file.empty()) { std::remove(file.c_str()); }
    std::remove((file + ".tmp").c_str());
    for (int m = 1; m != 4; ++m)
    {
        VF_CHECK(c, final_text[m] == final_text[0], "C20:modes-differ", "the checkpoint returned in mode " << m << " differs from the silent run");
        VF_CHECK(c, seen[m] == seen[0], "C20:modes-differ-during-run", "a checkpoint handed to the callback in mode " << m << " differs from the silent run (or the number of iterations does: "
            << seen[m].size() << " vs " << seen[0].size() << ")");
    }
    (void) unequal;
}

template <typename T>
void direct_layer(vf::Ctx& c)
{
    vf::Tape& t = c.t;
    std::size_t const n = t.pick(3) == 0 ? 13 + t.range(0, 27) : 1 + t.range(0, 39);
    std::string how;
    std::vector<T> raw = weight_pattern<T>(t, n, how);
    // valid weights: what a checkpoint would hold (normalised, floor respected)
    T const minw = t.flag() ? T(0) : T(0.3) / T(n);
    std::vector<T> const w = hep::multi_channel_refine_weights(raw, std::vector<T>(n, T(1)), minw, T(0.25));
    std::vector<T> data(n);
    for (auto& x : data) { x = static_cast<T>(t.unit()); }
    std::size_t const calls = t.pick(4) == 0 ? t.range(0, 10) : t.range(0, 1000000);
    hep::multi_channel_result<T> const res(hep::plain_result<T>(std::vector<hep::distribution_result<T>>(), calls, calls / 2, calls / 2, T(1), T(2)), data, w);
    auto chk = hep::make_multi_channel_chkpt<T>(minw, T(0.25));
    chk.channels(n);
    chk.add(res, std::mt19937());
    std::ostringstream out;
    hep::multi_channel_summary(chk, out);
    c.desc << vf::type_name<T>::get() << " direct summary channels=" << n << " pattern=" << how << " min=" << vf::show(minw) << " calls=" << calls << " w=" << vf::show(w, 14);
    VF_CHECK(c, out.good(), "C20:stream-state", "output stream not good after the summary");
    check_summary<T>(c, res, out.str());
    ++c.sub;
    std::set<T> distinct(w.begin(), w.end());
    if (n - hep::multi_channel_weight_info<T>(res).minimal_weight_count() >= 13) { c.label("abbreviated-summary"); }
    c.label("direct-layer");
    c.nontrivial = n >= 3 && distinct.size() >= 2;
}

template <typename T>
void run_t(vf::Ctx& c)
{
    vf::Tape& t = c.t;
    if (t.pick(3) == 0) { direct_layer<T>(c); return; }
    vf::RunCfg<T> cfg = vf::gen_cfg<T>(t);
    static int const families[] = {0, 5, 3, 6, 8, 1, 2, 4};
    cfg.fn.family = families[t.pick(8)];
    std::string how = "-";
    if (cfg.kind == vf::MULTI)
    {
        std::size_t const channels = t.pick(3) == 0 ? 13 + t.range(0, 27) : 1 + t.range(0, 39);
        cfg.fam = vf::gen_pwc<T>(t, 2, channels, 3);
        cfg.dims = cfg.fam.dims;
        cfg.fn.dims = cfg.dims;
        cfg.user_weights = true;
        cfg.weights = weight_pattern<T>(t, channels, how);
        if (!(cfg.minw < T(1) / T(channels))) { cfg.minw = T(0.5) / T(channels); }
    }
    std::size_t const n = t.range(0, 4);
    std::vector<std::size_t> calls;
    for (std::size_t i = 0; i != n; ++i) { calls.push_back(t.pick(6) == 0 ? t.range(0, 2) : 2 + t.range(0, 150)); }
    T const target = t.pick(3) == 0 ? static_cast<T>(std::pow(10.0L, -2.0L * t.unit())) : T(0);
    c.desc << vf::type_name<T>::get() << " run modes x4 calls=" << vf::show(calls) << " target=" << vf::show(target) << " pattern=" << how << ' ' << cfg.describe();
    bool unequal = false;
    std::size_t const path_draw = t.pick(5);
    int const unwritable = path_draw == 0 ? 1 : (path_draw == 1 ? 2 : 0);
    if (unwritable == 1) { c.label("unwritable-checkpoint-path"); c.desc << " unwritable-path"; }
    if (unwritable == 2) { c.label("empty-file-name"); c.desc << " empty-file-name"; }
    // (C20 does not read checkpoints back, so a name with a line break - which the text format cannot carry - is admissible here)
    if (!cfg.fn.dists.empty() && t.pick(6) == 1) { cfg.fn.dists[0].name = "two\nlines"; c.label("distribution-name-with-line-break"); }
    bool const fewer_dists = t.pick(4) == 1 && !cfg.fn.dists.empty() && calls.size() >= 2;
    if (fewer_dists) { c.label("continued-with-fewer-distributions"); c.desc << " continued-with-one-distribution-less"; }
    using E = std::mt19937;
    switch (cfg.kind)
    {
    case vf::PLAIN: run_layer<T, vf::Plain<T, E>>(c, cfg, calls, target, unequal, unwritable, fewer_dists); break;
    case vf::VEGAS: run_layer<T, vf::Vegas<T, E>>(c, cfg, calls, target, unequal, unwritable, fewer_dists); break;
    default: run_layer<T, vf::Multi<T, E>>(c, cfg, calls, target, unequal, unwritable, fewer_dists); break;
    }
    c.label("run-layer");
    if (cfg.fn.family == 5 || cfg.fn.family == 3 || cfg.fn.family == 6 || cfg.fn.family == 8) { c.label("degenerate-integrand"); }
    if (cfg.kind == vf::MULTI && cfg.fam.channels >= 13) { c.label("many-channels"); }
    if (target > T(0)) { c.label("positive-target"); }
    c.nontrivial = !calls.empty() && ((cfg.kind == vf::MULTI && cfg.fam.channels >= 3 && how != "equal") || cfg.fn.family == 5 || cfg.fn.family == 3 || cfg.fn.family == 6 || cfg.fn.family == 8);
}

void run(vf::Ctx& c)
{
    vf::with_type(c.t, [&](auto tag) { run_t<decltype(tag)>(c); });
}

} // namespace

vf::Property const vf::property = {"C20", "", run, nullptr, nullptr};
