// C01 - sampling weights make every integrator an unbiased estimator.
// A Monte Carlo estimator driven by an equidistributed midpoint lattice is a quadrature rule: with
// the scripted engine playing all lattice points, every multilinear integrand must be integrated
// exactly (to rounding) - for PLAIN, for VEGAS on any valid grid, and for multi-channel on the PWC
// family (normalised piecewise-constant densities, any common jacobian factor) with any admissible
// weights. Oracle: closed form of the integral.
#include "hep/mc.hpp"

#include "../lib/gen.hpp"
#include "../lib/instruments.hpp"
#include "../lib/pwc.hpp"
#include "../lib/harness.hpp"

namespace
{

// sum of up to 3 terms prod_k (a_k + b_k x_k)
template <typename T>
struct Multilinear
{
    std::size_t dims = 1;
    std::vector<std::vector<T>> a, b; // [term][k]

    T operator()(std::vector<T> const& x) const
    {
        T s = T(0);
        for (std::size_t t = 0; t != a.size(); ++t)
        {
            T p = T(1);
            for (std::size_t k = 0; k != dims; ++k) { p *= a[t][k] + b[t][k] * x[k]; }
            s += p;
        }
        return s;
    }
    // integral over the box prod [lo_k, hi_k]
    long double integral(std::vector<long double> const& lo, std::vector<long double> const& hi) const
    {
        long double s = 0;
        for (std::size_t t = 0; t != a.size(); ++t)
        {
            long double p = 1;
            for (std::size_t k = 0; k != dims; ++k)
            {
                p *= static_cast<long double>(a[t][k]) * (hi[k] - lo[k]) + static_cast<long double>(b[t][k]) * (hi[k] * hi[k] - lo[k] * lo[k]) / 2;
            }
            s += p;
        }
        return s;
    }
    long double magnitude() const
    {
        long double s = 0;
        for (std::size_t t = 0; t != a.size(); ++t)
        {
            long double p = 1;
            for (std::size_t k = 0; k != dims; ++k) { p *= std::fabs(static_cast<long double>(a[t][k])) + std::fabs(static_cast<long double>(b[t][k])); }
            s += p;
        }
        return s;
    }
    bool constant() const
    {
        for (auto const& bt : b) { for (auto v : bt) { if (v != T(0)) { return false; } } }
        return true;
    }
    std::string describe() const
    {
        std::ostringstream o;
        o << "f=";
        for (std::size_t t = 0; t != a.size(); ++t)
        {
            o << (t ? " + " : "");
            for (std::size_t k = 0; k != dims; ++k) { o << '(' << vf::show(a[t][k]) << '+' << vf::show(b[t][k]) << "x" << k << ')'; }
        }
        return o.str();
    }
};

template <typename T>
Multilinear<T> gen_f(vf::Tape& t, std::size_t dims)
{
    Multilinear<T> f;
    f.dims = dims;
    std::size_t const terms = 1 + t.pick(3);
    std::size_t const u10 = t.pick(10);
    bool const unit = u10 < 2; // f == 1: measure preservation alone
    bool const subnormal = u10 == 1; // f == min / 16: the same statement for a constant in the subnormal range of T
    for (std::size_t i = 0; i != terms; ++i)
    {
        std::vector<T> a(dims), b(dims);
        for (std::size_t k = 0; k != dims; ++k)
        {
            if (unit) { a[k] = (subnormal && k == 0) ? std::numeric_limits<T>::min() / T(16) : T(1); b[k] = T(0); continue; }
            a[k] = static_cast<T>(static_cast<long double>(static_cast<int>(t.range(0, 16)) - 8) / 4);
            b[k] = t.pick(4) == 0 ? T(0) : static_cast<T>(static_cast<long double>(static_cast<int>(t.range(0, 16)) - 8) / 2);
            if (t.pick(6) == 0) { a[k] = static_cast<T>((t.unit() - 0.5) * 6); b[k] = static_cast<T>((t.unit() - 0.5) * 6); }
        }
        f.a.push_back(a);
        f.b.push_back(b);
        if (unit) { break; }
    }
    return f;
}

template <typename T>
struct PointFn
{
    Multilinear<T> const* f;
    // per channel bookkeeping for the point-level multi-channel mode
    std::vector<long double>* channel_sum = nullptr;
    std::vector<std::size_t>* channel_count = nullptr;

    T operator()(hep::mc_point<T> const& p) const { return (*f)(p.point()); }
    // the variants with a projector go through the accumulator specialisation for integrands with distributions
    T operator()(hep::mc_point<T> const& p, hep::projector<T>& proj) const { T const v = (*f)(p.point()); proj.add(0, p.point()[0], v); return v; }
    T operator()(hep::multi_channel_point<T> const& p, hep::projector<T>& proj) const { T const v = (*this)(p); proj.add(0, p.coordinates()[0], v); return v; }
    T operator()(hep::multi_channel_point<T> const& p) const
    {
        T const v = (*f)(p.coordinates());
        if (channel_sum)
        {
            (*channel_sum)[p.channel()] += static_cast<long double>(v) * static_cast<long double>(p.weight());
            ++(*channel_count)[p.channel()];
        }
        return v;
    }
};

template <typename T>
hep::vegas_pdf<T> gen_grid(vf::Tape& t, std::size_t dims, std::size_t bins, std::string& how)
{
    hep::vegas_pdf<T> p(dims, bins);
    switch (t.pick(4))
    {
    case 0: how = "uniform"; break;
    case 1:
        how = "user";
        for (std::size_t i = 0; i != dims; ++i)
        {
            std::vector<T> e;
            for (std::size_t b = 1; b < bins; ++b) { e.push_back(t.pick(8) == 0 ? static_cast<T>(static_cast<long double>(t.range(0, 16)) / 16) : static_cast<T>(t.unit())); }
            std::sort(e.begin(), e.end());
            for (std::size_t b = 1; b < bins; ++b) { p.set_bin_left(i, b, e[b - 1]); }
        }
        break;
    case 2:
        how = "power";
        for (std::size_t i = 0; i != dims; ++i)
        {
            long double const ex = 0.3L + 3 * t.unit();
            for (std::size_t b = 1; b < bins; ++b) { p.set_bin_left(i, b, static_cast<T>(std::pow(static_cast<long double>(b) / bins, ex))); }
        }
        break;
    default:
    {
        how = "adapted";
        std::size_t const rounds = 1 + t.pick(6);
        long double const centre = t.unit(), width = 0.003L + 0.2L * t.unit();
        T const alpha = t.flag() ? T(1.5) : static_cast<T>(3 * t.unit());
        for (std::size_t r = 0; r != rounds; ++r)
        {
            std::vector<T> data(dims * bins);
            for (std::size_t i = 0; i != dims; ++i)
            {
                for (std::size_t b = 0; b != bins; ++b)
                {
                    long double const mid = 0.5L * (static_cast<long double>(p.bin_left(i, b)) + p.bin_left(i, b + 1));
                    long double const wb = static_cast<long double>(p.bin_left(i, b + 1)) - p.bin_left(i, b);
                    long double const z = (mid - centre) / width;
                    data[i * bins + b] = static_cast<T>(std::exp(-z * z) * wb * wb * bins * bins);
                }
            }
            p = hep::vegas_refine_pdf(p, alpha, data);
        }
        break;
    }
    }
    return p;
}

template <typename T>
void judge(vf::Ctx& c, T got, long double expect, long double tol, char const* sig, std::string const& what)
{
    long double const err = std::fabs(static_cast<long double>(got) - expect);
    tol += 4 * static_cast<long double>(std::numeric_limits<T>::denorm_min()); // (products in the subnormal range are rounded to its grid)
    c.note_margin(tol, err);
    VF_CHECK(c, err <= tol, sig, what << ": estimate " << vf::show(got) << ", integral " << vf::show<long double>(expect) << ", error " << vf::show<long double>(err)
        << " = " << vf::show<long double>(err / vf::eps<T>()) << " eps, tolerance " << vf::show<long double>(tol));
}

template <typename T>
void run_plain(vf::Ctx& c)
{
    vf::Tape& t = c.t;
    std::size_t const dims = 1 + t.pick(4);
    std::size_t const maxpts = vf::thorough() ? 400000 : 40000;
    std::size_t M = 1 + t.pick(24);
    while (std::pow(static_cast<double>(M), static_cast<double>(dims)) > maxpts) { --M; }
    Multilinear<T> const f = gen_f<T>(t, dims);
    std::size_t N = 1;
    for (std::size_t k = 0; k != dims; ++k) { N *= M; }
    std::vector<std::uint64_t> script;
    for (std::size_t i = 0; i != N; ++i)
    {
        std::size_t r = i;
        for (std::size_t k = 0; k != dims; ++k) { vf::push_canonical<T>(script, (r % M + 0.5L) / M); r /= M; }
    }
    vf::script_engine eng(script);
    PointFn<T> fn{&f};
    bool const with_dist = t.flag();
    hep::plain_result<T> const res = with_dist ? hep::plain_iteration(hep::make_integrand<T>(fn, dims, hep::make_dist_params<T>(3, T(0), T(1), "c01")), N, eng)
                                               : hep::plain_iteration(hep::make_integrand<T>(fn, dims), N, eng);
    if (with_dist) { c.label("with-distribution"); }
    c.desc << vf::type_name<T>::get() << (with_dist ? " +dist" : "") << " PLAIN d=" << dims << " lattice=" << M << "^" << dims << ' ' << f.describe();
    long double const expect = f.integral(std::vector<long double>(dims, 0.0L), std::vector<long double>(dims, 1.0L));
    judge<T>(c, res.value(), expect, 64 * vf::eps<T>() * dims * f.magnitude(), "C01:plain-biased", "PLAIN on a midpoint lattice");
    c.sub += N;
    c.label("PLAIN");
    c.nontrivial = !f.constant() && M >= 2;
}

template <typename T>
void run_vegas(vf::Ctx& c)
{
    vf::Tape& t = c.t;
    std::size_t const dims = 1 + t.pick(3);
    std::size_t const maxpts = vf::thorough() ? 2000000 : 100000;
    std::size_t bins;
    switch (t.pick(4)) { case 0: bins = 2 + t.range(0, 6); break; case 1: bins = 2 + t.range(0, 30); break; case 2: bins = 128; break; default: bins = 2 + t.range(0, 126); break; }
    std::size_t m = 1 + t.pick(4);
    while (std::pow(static_cast<double>(bins * m), static_cast<double>(dims)) > maxpts && m > 1) { --m; }
    while (std::pow(static_cast<double>(bins * m), static_cast<double>(dims)) > maxpts && bins > 2) { --bins; }
    std::string how;
    hep::vegas_pdf<T> const pdf = gen_grid<T>(t, dims, bins, how);
    Multilinear<T> const f = gen_f<T>(t, dims);
    std::size_t const L = bins * m;
    std::size_t N = 1;
    for (std::size_t k = 0; k != dims; ++k) { N *= L; }
    std::vector<std::uint64_t> script;
    for (std::size_t i = 0; i != N; ++i)
    {
        std::size_t r = i;
        for (std::size_t k = 0; k != dims; ++k)
        {
            std::size_t const l = r % L;
            r /= L;
            // sub-point j of bin b in u-space
            vf::push_canonical<T>(script, (l / m + (l % m + 0.5L) / m) / bins);
        }
    }
    vf::script_engine eng(script);
    PointFn<T> fn{&f};
    bool const e2e = t.flag();
    bool const with_dist = t.flag();
    T value;
    auto run_with = [&](auto&& ig) {
        if (e2e)
        {
            // through the public driver: the checkpoint hands the user grid to the first iteration
            auto chk = hep::make_vegas_chkpt<T, vf::script_engine>(pdf, T(1.5), eng);
            auto const out = hep::vegas(ig, std::vector<std::size_t>{N}, chk, [](decltype(chk) const&) { return true; });
            value = out.results().at(0).value();
        }
        else { value = hep::vegas_iteration(ig, N, pdf, eng).value(); }
    };
    if (with_dist) { run_with(hep::make_integrand<T>(fn, dims, hep::make_dist_params<T>(4, T(0), T(1), "c01"))); c.label("with-distribution"); }
    else { run_with(hep::make_integrand<T>(fn, dims)); }
    c.desc << vf::type_name<T>::get() << (with_dist ? " +dist" : "") << " VEGAS d=" << dims << " bins=" << bins << " m=" << m << " grid=" << how << (e2e ? " via hep::vegas" : " via vegas_iteration") << ' ' << f.describe();
    long double const expect = f.integral(std::vector<long double>(dims, 0.0L), std::vector<long double>(dims, 1.0L));
    judge<T>(c, value, expect, 64 * vf::eps<T>() * dims * f.magnitude(), "C01:vegas-biased", "VEGAS on a midpoint lattice, grid " + how);
    c.sub += N;
    bool nonuniform = false;
    for (std::size_t d = 0; d != dims; ++d) { for (std::size_t b = 0; b != bins; ++b) {
        long double const w = static_cast<long double>(pdf.bin_left(d, b + 1)) - pdf.bin_left(d, b);
        if (std::fabs(w * bins - 1) > 1e-3L) { nonuniform = true; } } }
    c.label("VEGAS");
    if (nonuniform) { c.label("non-uniform-grid"); }
    c.nontrivial = nonuniform && !f.constant();
}

// many dimensions: the grid is non-uniform in dimension 0 only and the integrand depends on x_0 only, so a lattice
// in that one dimension is a complete quadrature rule while the weight still is a product over all dimensions
template <typename T>
void run_vegas_highdim(vf::Ctx& c)
{
    vf::Tape& t = c.t;
    std::size_t const dims = 4 + t.range(0, 96);
    std::size_t const bins = t.flag() ? 128 : (t.flag() ? 1000 : 2 + t.range(0, 60));
    std::size_t const m = 1 + t.pick(3);
    std::string how;
    hep::vegas_pdf<T> const one = gen_grid<T>(t, 1, bins, how);
    hep::vegas_pdf<T> pdf(dims, bins);
    for (std::size_t b = 0; b <= bins; ++b) { pdf.set_bin_left(0, b, one.bin_left(0, b)); }
    Multilinear<T> f = gen_f<T>(t, 1);
    f.dims = 1; // depends on x_0 only
    std::size_t const N = bins * m;
    std::vector<std::uint64_t> script;
    std::uint64_t const ss = t.stream_seed();
    for (std::size_t i = 0; i != N; ++i)
    {
        vf::push_canonical<T>(script, (i / m + (i % m + 0.5L) / m) / bins);
        for (std::size_t k = 1; k != dims; ++k) { vf::push_canonical<T>(script, static_cast<long double>(vf::stream_unit(ss, i * dims + k))); }
    }
    vf::script_engine eng(script);
    PointFn<T> fn{&f};
    auto ig = hep::make_integrand<T>(fn, dims);
    T const value = hep::vegas_iteration(ig, N, pdf, eng).value();
    c.desc << vf::type_name<T>::get() << " VEGAS high-dimensional d=" << dims << " bins=" << bins << " m=" << m << " grid(dim 0)=" << how << ' ' << f.describe();
    long double const expect = f.integral(std::vector<long double>(1, 0.0L), std::vector<long double>(1, 1.0L));
    // The uniform dimensions are sampled at generated (not lattice) positions, so their weight factors do not telescope:
    // a bin width is the difference of two boundaries that each carry a rounding error of eps/2, i.e. bins * width is
    // 1 +- bins * eps per dimension and point (1000 bins in float: 1e-4). Worst case bound over all points:
    judge<T>(c, value, expect, vf::eps<T>() * (64.0L * dims + static_cast<long double>(bins) * (dims - 1)) * f.magnitude(), "C01:vegas-biased",
        "VEGAS in " + std::to_string(dims) + " dimensions, lattice in dimension 0");
    c.sub += N;
    c.label("VEGAS");
    c.label("vegas-high-dimension");
    c.nontrivial = !f.constant() && how != "uniform";
}

template <typename T>
void run_multi(vf::Ctx& c)
{
    vf::Tape& t = c.t;
    std::size_t const channels = 1 + t.pick(6);
    vf::PwcFamily<T> fam = vf::gen_pwc<T>(t, 2, channels, 5);
    std::size_t const dims = fam.dims;
    std::size_t const m = 1 + t.pick(2);
    Multilinear<T> const f = gen_f<T>(t, dims);
    bool const e2e = t.flag();
    std::size_t const L = fam.K * m; // lattice points per dimension in r-space
    std::size_t R = 1;
    for (std::size_t k = 0; k != dims; ++k) { R *= L; }
    // weights
    std::vector<T> w(channels);
    unsigned q = 0;
    std::size_t s = 1;
    std::string how;
    if (e2e)
    {
        // dyadic weights k_i / 2^q (zeros allowed), selection lattice of 2^q * s midpoints
        q = 1 + static_cast<unsigned>(t.pick(4));
        s = 1 + t.pick(2);
        unsigned left = 1u << q;
        for (std::size_t i = 0; i + 1 < channels; ++i) { unsigned const k = static_cast<unsigned>(t.range(0, left)); w[i] = static_cast<T>(k) / static_cast<T>(1u << q); left -= k; }
        w[channels - 1] = static_cast<T>(left) / static_cast<T>(1u << q);
        how = "dyadic/2^" + std::to_string(q);
    }
    else
    {
        w = vf::gen_weights<T>(t, channels, &how);
        w.resize(channels, T(1));
        // a weight below the resolution of the cumulative sums can never be selected: keep ratios above 10^-5
        { T mx = T(0); for (auto x : w) { mx = std::max(mx, x); } for (auto& x : w) { if (x > T(0) && x < mx * T(1e-5)) { x = mx * T(1e-5); } } }
        // admissible weights are normalised: a checkpoint passes user weights through this very call
        w = hep::multi_channel_refine_weights(w, std::vector<T>(channels, T(1)), T(0), T(0.25));
        if (t.flag())
        {
            // weights as adaptation produces them
            std::vector<T> data(channels);
            for (auto& x : data) { x = static_cast<T>(t.unit()); }
            w = hep::multi_channel_refine_weights(w, data, t.flag() ? T(0) : T(0.3) / T(channels), T(0.25));
            how += "+refined";
        }
    }
    long double wsum = 0;
    for (auto x : w) { wsum += x; }
    if (!(wsum > 0)) { w[0] = T(1); wsum = 1; }
    std::vector<std::size_t> enabled;
    for (std::size_t i = 0; i != channels; ++i) { if (w[i] != T(0)) { enabled.push_back(i); } }

    // script: per call d lattice numbers, then the selection number
    std::vector<std::uint64_t> script;
    std::size_t N = 0;
    auto push_point = [&](std::size_t idx, long double usel) {
        std::size_t r = idx;
        for (std::size_t k = 0; k != dims; ++k) { vf::push_canonical<T>(script, (r % L + 0.5L) / L); r /= L; }
        vf::push_canonical<T>(script, usel);
        ++N;
    };
    if (e2e)
    {
        std::size_t const S = (std::size_t(1) << q) * s;
        for (std::size_t j = 0; j != S; ++j) { for (std::size_t idx = 0; idx != R; ++idx) { push_point(idx, (j + 0.5L) / S); } }
    }
    else
    {
        // the midpoint of each enabled channel's cumulative interval, full lattice for each
        long double run = 0;
        for (std::size_t i = 0; i != channels; ++i)
        {
            long double const lo = run / wsum;
            run += w[i];
            long double const hi = run / wsum;
            if (w[i] == T(0)) { continue; }
            for (std::size_t idx = 0; idx != R; ++idx) { push_point(idx, 0.5L * (lo + hi)); }
        }
    }
    std::vector<long double> csum(channels, 0.0L);
    std::vector<std::size_t> ccount(channels, 0);
    PointFn<T> fn{&f, &csum, &ccount};
    vf::PwcMap<T> map{&fam, nullptr, nullptr};
    vf::script_engine eng(script);
    bool const with_dist = t.flag();
    std::vector<hep::distribution_parameters<T>> params;
    if (with_dist) { params.push_back(hep::make_dist_params<T>(4, T(0), T(1), "c01")); c.label("with-distribution"); }
    hep::multi_channel_integrand<T, PointFn<T>, vf::PwcMap<T>, false> ig_plain(fn, dims, map, fam.map_dims, channels, params);
    hep::multi_channel_integrand<T, PointFn<T>, vf::PwcMap<T>, true> ig_dist(fn, dims, map, fam.map_dims, channels, params);
    hep::plain_result<T> const res = with_dist ? static_cast<hep::plain_result<T>>(hep::multi_channel_iteration(ig_dist, N, w, eng))
                                               : static_cast<hep::plain_result<T>>(hep::multi_channel_iteration(ig_plain, N, w, eng));
    c.desc << vf::type_name<T>::get() << (with_dist ? " +dist" : "") << " MULTI " << fam.describe() << " m=" << m << " weights(" << how << ")=" << vf::show(w) << (e2e ? " E2E" : " point-level") << ' ' << f.describe();

    // the integral over the cells covered by an enabled channel
    long double expect = 0;
    std::size_t cells_total = 1;
    for (std::size_t k = 0; k != dims; ++k) { cells_total *= fam.cells; }
    bool uncovered = false;
    for (std::size_t cell = 0; cell != cells_total; ++cell)
    {
        std::vector<std::size_t> cb(dims);
        std::size_t r = cell;
        for (std::size_t k = 0; k != dims; ++k) { cb[k] = r % fam.cells; r /= fam.cells; }
        bool covered = false;
        for (std::size_t i : enabled)
        {
            bool all = true;
            for (std::size_t k = 0; k != dims; ++k) { if (fam.mass(i, k, cb[k]) == 0) { all = false; } }
            if (all) { covered = true; }
        }
        if (!covered) { uncovered = true; continue; }
        std::vector<long double> lo(dims), hi(dims);
        for (std::size_t k = 0; k != dims; ++k) { lo[k] = fam.edge(k, cb[k]); hi[k] = fam.edge(k, cb[k] + 1); }
        expect += f.integral(lo, hi);
    }
    long double const tol = 64 * vf::eps<T>() * (dims + channels) * f.magnitude();
    if (e2e)
    {
        judge<T>(c, res.value(), expect, tol, "C01:multi-channel-biased", "multi-channel on a midpoint lattice (channel choice on a lattice as well)");
    }
    else
    {
        // sum_i alpha_i mean_x (f w | i)
        long double est = 0;
        for (std::size_t i : enabled)
        {
            VF_CHECK(c, ccount[i] == R, "C01:channel-selection", "channel " << i << " was selected " << ccount[i] << " times instead of " << R);
            est += static_cast<long double>(w[i]) / wsum * (csum[i] / R);
        }
        judge<T>(c, static_cast<T>(est), expect, tol + 4 * vf::eps<T>() * std::fabs(expect), "C01:multi-channel-biased", "multi-channel point weights (sum_i alpha_i mean(f w | i))");
    }
    c.sub += N;
    bool unequal = false;
    for (std::size_t i : enabled) { if (w[i] != w[enabled[0]]) { unequal = true; } }
    c.label("MULTI");
    if (uncovered) { c.label("uncovered-cells"); }
    if (enabled.size() < channels) { c.label("disabled-channel"); }
    if (fam.jac_mode != 0) { c.label("common-jacobian-factor"); }
    c.nontrivial = enabled.size() >= 2 && unequal && !f.constant();
}

void run(vf::Ctx& c)
{
    std::size_t const which = c.t.pick(5);
    vf::with_type(c.t, [&](auto tag) {
        using T = decltype(tag);
        if (which == 0) { run_plain<T>(c); }
        else if (which <= 2) { if (c.t.pick(6) == 5) { run_vegas_highdim<T>(c); } else { run_vegas<T>(c); } }
        else { run_multi<T>(c); }
    });
}

} // namespace

vf::Property const vf::property = {"C01", "", run, nullptr, nullptr};
