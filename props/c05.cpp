// C05 - the checkpoint text format is lossless.
// Domain: checkpoints assembled through the public constructors only, with fields over the whole
// finite value space (bit patterns: denormals, largest finite, -0, all-digit values), counters up
// to 2^64-1, 0..4 results, 0..3 distributions with odd names, grids, channel data, all three
// numeric types and the nine standard engines (advanced by generated discards), incl. the
// zero-result checkpoints that store the first grid / first weights.
// Oracle: obj -> text -> obj': every public accessor bit-identical, generators equal, stream good.
#include "hep/mc/multi_channel_chkpt.hpp"
#include "hep/mc/plain_chkpt.hpp"
#include "hep/mc/vegas_chkpt.hpp"

#include "../lib/gen.hpp"
#include "../lib/harness.hpp"

#include <random>

namespace
{

struct Feat
{
    bool hard_value = false, odd_name = false, has_result = false, has_dist = false;
};

template <typename T>
T field(vf::Tape& t, Feat& ft)
{
    std::size_t const cls = t.pick(6);
    T v;
    switch (cls)
    {
    case 0: v = T(1); break;
    case 1: v = T(0); break;
    case 2: v = -T(0); ft.hard_value = true; break;
    case 3: v = vf::from_bits<T>(t.bits()); ft.hard_value = true; break;
    case 4:
        switch (t.pick(5))
        {
        case 0: v = std::numeric_limits<T>::max(); break;
        case 1: v = std::numeric_limits<T>::lowest(); break;
        case 2: v = std::numeric_limits<T>::denorm_min(); break;
        case 3: v = std::numeric_limits<T>::min(); break;
        default: v = std::nextafter(T(1), T(2)); break;
        }
        ft.hard_value = true;
        break;
    default: v = vf::gen_real<T>(t, vf::R_ALL, 8); if (v != T(static_cast<float>(v))) { ft.hard_value = true; } break;
    }
    return v;
}

std::size_t counter(vf::Tape& t)
{
    switch (t.pick(4))
    {
    case 0: return t.range(0, 10);
    case 1: return t.range(0, 100000);
    case 2: return ~std::size_t(0) - t.range(0, 3);
    default: return static_cast<std::size_t>(t.bits());
    }
}

template <typename T>
hep::mc_result<T> gen_mc(vf::Tape& t, Feat& ft)
{
    std::size_t const a = counter(t), b = counter(t), c = counter(t);
    T const s = field<T>(t, ft), q = field<T>(t, ft);
    return hep::mc_result<T>(a, b, c, s, q);
}

std::string gen_name(vf::Tape& t, Feat& ft)
{
    switch (t.pick(8))
    {
    case 0: return (t.data().size() % 2) ? "name" : "#name that starts like a comment line";
    case 1: ft.odd_name = true; return "";
    case 2: ft.odd_name = true; return (t.data().size() % 2) ? "with inner blanks" : "$p_T(\\bar\\nu)$ \\nabla: backslash followed by n";
    case 3: ft.odd_name = true; return "   leading blanks";
    case 4: ft.odd_name = true; return "trailing blanks   ";
    case 5: return std::string(1 + t.range(0, 300), 'y');
    case 6: ft.odd_name = true; return " ";
    default: ft.odd_name = true; return "\t tab and #hash 1 2 3";
    }
}

template <typename T>
hep::distribution_parameters<T> gen_params(vf::Tape& t, Feat& ft)
{
    std::size_t const bx = 1 + t.pick(5), by = t.flag() ? 1 : 1 + t.pick(3);
    // x_max - x_min and the bin sizes are stored as computed: any finite values will do for the format
    T const xmin = field<T>(t, ft), ymin = field<T>(t, ft);
    T xmax = field<T>(t, ft), ymax = field<T>(t, ft);
    hep::distribution_parameters<T> p(bx, by, xmin, xmax, ymin, ymax, gen_name(t, ft));
    if (!std::isfinite(p.bin_size_x()) || !std::isfinite(p.bin_size_y()))
    {
        // the difference overflowed: keep the fields finite (property: finite numeric fields)
        return hep::distribution_parameters<T>(bx, by, T(0), T(1), T(-1), T(1), p.name());
    }
    return p;
}

template <typename T>
hep::plain_result<T> gen_plain(vf::Tape& t, Feat& ft, std::vector<hep::distribution_parameters<T>> const& params)
{
    std::vector<hep::distribution_result<T>> ds;
    for (auto const& p : params)
    {
        std::vector<hep::mc_result<T>> bins;
        for (std::size_t k = 0; k != p.bins_x() * p.bins_y(); ++k) { bins.push_back(gen_mc<T>(t, ft)); }
        ds.emplace_back(p, bins);
    }
    hep::mc_result<T> const m = gen_mc<T>(t, ft);
    return hep::plain_result<T>(ds, m.calls(), m.non_zero_calls(), m.finite_calls(), m.sum(), m.sum_of_squares());
}

template <typename T>
void require_same(vf::Ctx& c, T a, T b, char const* what, std::size_t i = 0, std::size_t j = 0)
{
    VF_CHECK(c, vf::same_bits(a, b), "C05:field-differs", what << " [" << i << "][" << j << "]: wrote " << vf::show(a) << " read " << vf::show(b));
}

template <typename T>
void compare_mc(vf::Ctx& c, hep::mc_result<T> const& a, hep::mc_result<T> const& b, char const* what, std::size_t i, std::size_t j)
{
    VF_CHECK(c, a.calls() == b.calls() && a.non_zero_calls() == b.non_zero_calls() && a.finite_calls() == b.finite_calls(),
        "C05:counter-differs", what << " [" << i << "][" << j << "]: counters " << a.calls() << '/' << a.non_zero_calls() << '/' << a.finite_calls()
        << " read " << b.calls() << '/' << b.non_zero_calls() << '/' << b.finite_calls());
    require_same(c, a.sum(), b.sum(), "sum", i, j);
    require_same(c, a.sum_of_squares(), b.sum_of_squares(), "sum_of_squares", i, j);
}

template <typename T>
void compare_plain(vf::Ctx& c, hep::plain_result<T> const& a, hep::plain_result<T> const& b, std::size_t i)
{
    compare_mc<T>(c, a, b, "result", i, 0);
    VF_CHECK(c, a.distributions().size() == b.distributions().size(), "C05:distribution-count", "result " << i << ": "
        << a.distributions().size() << " distributions written, " << b.distributions().size() << " read");
    for (std::size_t d = 0; d != a.distributions().size(); ++d)
    {
        auto const& pa = a.distributions()[d].parameters();
        auto const& pb = b.distributions()[d].parameters();
        VF_CHECK(c, pa.name() == pb.name(), "C05:name-differs", "result " << i << " distribution " << d << ": name '" << pa.name() << "' read '" << pb.name() << "'");
        VF_CHECK(c, pa.bins_x() == pb.bins_x() && pa.bins_y() == pb.bins_y(), "C05:bins-differ", "result " << i << " distribution " << d << ": bins");
        require_same(c, pa.x_min(), pb.x_min(), "x_min", i, d);
        require_same(c, pa.y_min(), pb.y_min(), "y_min", i, d);
        require_same(c, pa.bin_size_x(), pb.bin_size_x(), "bin_size_x", i, d);
        require_same(c, pa.bin_size_y(), pb.bin_size_y(), "bin_size_y", i, d);
        auto const& ra = a.distributions()[d].results();
        auto const& rb = b.distributions()[d].results();
        VF_CHECK(c, ra.size() == rb.size(), "C05:bin-count", "result " << i << " distribution " << d << ": " << ra.size() << " bins written, " << rb.size() << " read");
        for (std::size_t k = 0; k != ra.size(); ++k) { compare_mc<T>(c, ra[k], rb[k], "bin", d, k); }
    }
}

template <typename T>
void compare_pdf(vf::Ctx& c, hep::vegas_pdf<T> const& a, hep::vegas_pdf<T> const& b, std::size_t i)
{
    VF_CHECK(c, a.bins() == b.bins() && a.dimensions() == b.dimensions(), "C05:grid-shape", "grid shape of result " << i);
    for (std::size_t d = 0; d != a.dimensions(); ++d)
    {
        for (std::size_t k = 0; k <= a.bins(); ++k) { require_same(c, a.bin_left(d, k), b.bin_left(d, k), "grid boundary", d, k); }
    }
}

template <typename T>
void compare_vec(vf::Ctx& c, std::vector<T> const& a, std::vector<T> const& b, char const* what, std::size_t i)
{
    VF_CHECK(c, a.size() == b.size(), "C05:vector-size", what << " of result " << i << ": size " << a.size() << " read " << b.size());
    for (std::size_t k = 0; k != a.size(); ++k) { require_same(c, a[k], b[k], what, i, k); }
}

void stream_ok(vf::Ctx& c, std::istream& in)
{
    VF_CHECK(c, !in.fail(), "C05:stream-failed", "the stream is in a failed state after reading the checkpoint");
    in >> std::ws;
    VF_CHECK(c, in.peek() == std::char_traits<char>::eof(), "C05:trailing-text", "text left over after reading the checkpoint");
}

template <typename Chk>
std::string text_of(Chk const& k)
{
    std::ostringstream o;
    k.serialize(o);
    return o.str();
}

template <typename T, typename E>
void run_te(vf::Ctx& c, char const* engine_name)
{
    vf::Tape& t = c.t;
    Feat ft;
    std::size_t const kind = t.pick(3);
    std::size_t const nres = t.pick(5);
    std::size_t const ndist = t.pick(4);
    std::vector<hep::distribution_parameters<T>> params;
    for (std::size_t d = 0; d != ndist; ++d) { params.push_back(gen_params<T>(t, ft)); }
    E eng(1 + static_cast<std::uint32_t>(t.next() % 2147483000u));
    eng.discard(t.range(0, 5000));
    ft.has_result = nres > 0;
    ft.has_dist = ndist > 0 && nres > 0;
    c.desc << vf::type_name<T>::get() << ' ' << engine_name << (kind == 0 ? " plain" : kind == 1 ? " vegas" : " multi_channel") << " results=" << nres
           << " dists=" << ndist;
    for (auto const& p : params) { c.desc << " '" << p.name().substr(0, 20) << "'" << p.bins_x() << 'x' << p.bins_y(); }
    std::string text, text2;
    if (kind == 0)
    {
        auto chk = hep::make_plain_chkpt<T, E>(eng);
        for (std::size_t i = 0; i != nres; ++i) { eng.discard(t.range(0, 300)); chk.add(gen_plain<T>(t, ft, params), eng); }
        text = text_of(chk);
        std::istringstream in(text);
        auto const back = hep::make_plain_chkpt<T, E>(in);
        stream_ok(c, in);
        VF_CHECK(c, back.results().size() == nres, "C05:result-count", nres << " results written, " << back.results().size() << " read");
        for (std::size_t i = 0; i != nres; ++i) { compare_plain<T>(c, chk.results()[i], back.results()[i], i); }
        VF_CHECK(c, back.generator() == chk.generator(), "C05:generator", "generator() differs after the round trip");
        text2 = text_of(back);
    }
    else if (kind == 1)
    {
        std::size_t const dims = 1 + t.pick(4), bins = 2 + t.pick(39);
        T const alpha = field<T>(t, ft);
        auto gen_pdf = [&]() {
            hep::vegas_pdf<T> p(dims, bins);
            if (t.flag()) { for (std::size_t d = 0; d != dims; ++d) { for (std::size_t k = 0; k <= bins; ++k) { p.set_bin_left(d, k, field<T>(t, ft)); } } }
            return p;
        };
        auto chk = hep::make_vegas_chkpt<T, E>(gen_pdf(), alpha, eng);
        for (std::size_t i = 0; i != nres; ++i)
        {
            eng.discard(t.range(0, 300));
            std::vector<T> data(dims * bins);
            for (auto& x : data) { x = field<T>(t, ft); }
            chk.add(hep::vegas_result<T>(gen_plain<T>(t, ft, params), gen_pdf(), data), eng);
        }
        c.desc << " dims=" << dims << " bins=" << bins << " alpha=" << vf::show(alpha);
        text = text_of(chk);
        std::istringstream in(text);
        auto const back = hep::make_vegas_chkpt<T, E>(in);
        stream_ok(c, in);
        VF_CHECK(c, back.results().size() == nres, "C05:result-count", nres << " results written, " << back.results().size() << " read");
        require_same(c, chk.alpha(), back.alpha(), "alpha");
        for (std::size_t i = 0; i != nres; ++i)
        {
            compare_plain<T>(c, chk.results()[i], back.results()[i], i);
            compare_pdf<T>(c, chk.results()[i].pdf(), back.results()[i].pdf(), i);
            compare_vec<T>(c, chk.results()[i].adjustment_data(), back.results()[i].adjustment_data(), "adjustment_data", i);
        }
        if (nres == 0) { compare_pdf<T>(c, chk.pdf(), back.pdf(), 0); }
        VF_CHECK(c, back.generator() == chk.generator(), "C05:generator", "generator() differs after the round trip");
        text2 = text_of(back);
    }
    else
    {
        std::size_t const channels = 1 + t.pick(40);
        T const beta = field<T>(t, ft), minw = field<T>(t, ft);
        // the weight constructor normalises; the zero-result checkpoint stores what it computed
        std::vector<T> w0 = vf::gen_weights<T>(t, channels);
        w0.resize(channels, T(1));
        bool const user = t.flag();
        auto chk = user ? hep::make_multi_channel_chkpt<T, E>(w0, T(0), T(0.25), eng) : hep::make_multi_channel_chkpt<T, E>(minw, beta, eng);
        // without user weights and before the first run the channel count is unknown: such a checkpoint has no first
        // weights at all (the library's own 'empty stream construction' test writes exactly this)
        bool const no_channels_yet = !user && nres == 0 && t.flag();
        if (!no_channels_yet) { chk.channels(channels); } else { c.label("no-first-weights"); }
        for (std::size_t i = 0; i != nres; ++i)
        {
            eng.discard(t.range(0, 300));
            std::vector<T> data(channels), w(channels);
            for (auto& x : data) { x = field<T>(t, ft); }
            for (auto& x : w) { x = field<T>(t, ft); }
            chk.add(hep::multi_channel_result<T>(gen_plain<T>(t, ft, params), data, w), eng);
        }
        c.desc << " channels=" << channels << " beta=" << vf::show(chk.beta()) << " min=" << vf::show(chk.min_weight());
        text = text_of(chk);
        std::istringstream in(text);
        auto const back = hep::make_multi_channel_chkpt<T, E>(in);
        stream_ok(c, in);
        VF_CHECK(c, back.results().size() == nres, "C05:result-count", nres << " results written, " << back.results().size() << " read");
        require_same(c, chk.beta(), back.beta(), "beta");
        require_same(c, chk.min_weight(), back.min_weight(), "min_weight");
        for (std::size_t i = 0; i != nres; ++i)
        {
            compare_plain<T>(c, chk.results()[i], back.results()[i], i);
            compare_vec<T>(c, chk.results()[i].adjustment_data(), back.results()[i].adjustment_data(), "adjustment_data", i);
            compare_vec<T>(c, chk.results()[i].channel_weights(), back.results()[i].channel_weights(), "channel_weights", i);
        }
        if (nres == 0) { compare_vec<T>(c, chk.channel_weights(), back.channel_weights(), "first channel weights", 0); }
        VF_CHECK(c, back.generator() == chk.generator(), "C05:generator", "generator() differs after the round trip");
        text2 = text_of(back);
    }
    // all stored generators (and everything else once more): the text of the object read back is the text written
    VF_CHECK(c, text == text2, "C05:text-not-reproduced", "serialising the checkpoint read back gives a different text");
    ++c.sub;
    if (ft.hard_value) { c.label("hard-value"); }
    if (ft.odd_name && ft.has_dist) { c.label("odd-name"); }
    if (nres == 0) { c.label("zero-results"); }
    if (ft.has_dist) { c.label("with-distributions"); }
    c.label(std::string("engine:") + engine_name);
    c.nontrivial = ft.has_result && (ft.hard_value || (ft.odd_name && ft.has_dist));
}

template <typename F>
void with_engine(vf::Tape& t, F&& f)
{
    switch (t.pick(9))
    {
    case 0: f(std::mt19937(), "mt19937"); break;
    case 1: f(std::minstd_rand(), "minstd_rand"); break;
    case 2: f(std::mt19937_64(), "mt19937_64"); break;
    case 3: f(std::ranlux24_base(), "ranlux24_base"); break;
    case 4: f(std::ranlux48_base(), "ranlux48_base"); break;
    case 5: f(std::ranlux24(), "ranlux24"); break;
    case 6: f(std::ranlux48(), "ranlux48"); break;
    case 7: f(std::knuth_b(), "knuth_b"); break;
    default: f(std::minstd_rand0(), "minstd_rand0"); break;
    }
}

void run(vf::Ctx& c)
{
    vf::with_type(c.t, [&](auto tag) {
        using T = decltype(tag);
        with_engine(c.t, [&](auto eng, char const* name) { run_te<T, decltype(eng)>(c, name); });
    });
}

} // namespace

vf::Property const vf::property = {"C05", "", run, nullptr, nullptr};
