// C13 - combining results obeys the documented formulas and their algebraic laws.
// Domain: sequences of 0..12 results (either sign, many orders of magnitude, results without
// non-zero calls, permutations, optional distributions). Oracle: long double reference model +
// algebraic laws (bounds, order independence, identity/empty cases, per-bin independence).
#include "hep/mc/mc_helper.hpp"
#include "hep/mc/mc_result.hpp"
#include "hep/mc/plain_result.hpp"

#include "../lib/gen.hpp"
#include "../lib/harness.hpp"

namespace
{

template <typename T> struct lim;
template <> struct lim<float> { static constexpr int decades = 7; static constexpr int k = 3; };
template <> struct lim<double> { static constexpr int decades = 60; static constexpr int k = 7; };
template <> struct lim<long double> { static constexpr int decades = 1500; static constexpr int k = 9; }; // far beyond the range of double

template <typename T>
hep::mc_result<T> gen_result(vf::Tape& t, bool allow_empty, T scale, std::size_t fixed_calls = 0)
{
    std::size_t calls;
    bool huge = false;
    if (fixed_calls) { calls = fixed_calls; }
    else if (t.pick(10) == 9 && !std::is_same<T, float>::value) { calls = (std::size_t(1) << 31) + t.range(0, (std::size_t(1) << 32)); huge = true; } // totals beyond 2^32 (not for float: N^2 S^2 leaves its range)
    else switch (t.pick(4))
    {
    case 0: calls = 2 + t.range(0, 8); break;
    case 1: calls = 2 + t.range(0, 1000); break;
    case 2: calls = 1000 * (1 + t.range(0, 999)); break;
    default: calls = 2 + t.range(0, 100000); break;
    }
    if (allow_empty && t.chance(1, 4))
    {
        return hep::create_result<T>(calls, 0, 0, T(), T());
    }
    // estimate: common scale times a factor of order one (or a wild one), either sign
    long double e;
    switch (t.pick(4))
    {
    case 0: e = 1.0L + t.unit(); break;
    case 1: e = (t.unit() - 0.5L) * 4.0L; break;
    case 2: e = std::pow(10.0L, (t.unit() * 2 - 1) * 3) * (t.flag() ? -1 : 1); break;
    default: e = static_cast<long double>(t.range(1, 9)) * (t.flag() ? -1 : 1); break;
    }
    if (e == 0) { e = 1; }
    T const E = static_cast<T>(e) * scale;
    // error relative to |E| between 10^-k and 10^3
    // with billions of calls keep S <= |E| so that N^2 S^2 stays representable in float
    long double const rel = std::pow(10.0L, -lim<T>::k + t.unit() * (lim<T>::k + ((huge || calls > 100000000) ? 0 : 3)));
    T S = static_cast<T>(std::fabs(static_cast<long double>(E)) * rel);
    std::size_t const nz = 1 + t.range(0, calls - 1);
    // counters as a run produces them: a result that carries a non-zero estimate and variance saw at least one finite value
    std::size_t const fin = std::max<std::size_t>(1, t.range(0, nz));
    hep::mc_result<T> r = hep::create_result<T>(calls, nz, fin, E, S);
    // construction, not rejection: widen the error until the value read back has a positive variance
    for (int i = 0; i != 12 && !(r.variance() > T() && std::isfinite(r.variance())); ++i)
    {
        S *= T(10);
        r = hep::create_result<T>(calls, nz, fin, E, S);
    }
    return r;
}

template <typename T>
struct Ref
{
    std::size_t calls = 0, nz = 0, fin = 0, used = 0;
    long double E = 0, S = 0, minE = 0, maxE = 0, minS = 0;
};

template <typename T, typename It>
Ref<T> reference(It b, It e)
{
    Ref<T> r;
    long double sw = 0, swe = 0;
    bool first = true;
    for (It i = b; i != e; ++i)
    {
        r.calls += i->calls();
        r.nz += i->non_zero_calls();
        r.fin += i->finite_calls();
        if (i->non_zero_calls() == 0) { continue; }
        long double const v = i->value(), var = i->variance();
        sw += 1.0L / var;
        swe += v / var;
        long double const s = std::sqrt(var);
        if (first) { r.minE = r.maxE = v; r.minS = s; first = false; }
        r.minE = std::min(r.minE, v);
        r.maxE = std::max(r.maxE, v);
        r.minS = std::min(r.minS, s);
        ++r.used;
    }
    if (r.used) { r.E = swe / sw; r.S = 1.0L / std::sqrt(sw); }
    return r;
}

template <typename T>
std::string show_results(std::vector<hep::mc_result<T>> const& v)
{
    std::ostringstream o;
    o << '{';
    for (auto const& r : v)
    {
        o << "(N=" << r.calls() << ",nz=" << r.non_zero_calls() << ",E=" << vf::show(r.value()) << ",S="
          << vf::show(r.error()) << ")";
    }
    o << '}';
    return o.str();
}

template <typename T, typename It>
void check_weighted(vf::Ctx& c, It b, It e, hep::mc_result<T> const& got, char const* what, bool& illcond)
{
    using std::fabs;
    Ref<T> const ref = reference<T>(b, e);
    std::size_t const m = std::max<std::size_t>(1, ref.used);
    long double const eps = vf::eps<T>();
    VF_CHECK(c, got.calls() == ref.calls && got.non_zero_calls() == ref.nz && got.finite_calls() == ref.fin,
        "C13:counters", what << ": counters " << got.calls() << '/' << got.non_zero_calls() << '/' << got.finite_calls()
        << " expected " << ref.calls << '/' << ref.nz << '/' << ref.fin);
    if (ref.used == 0)
    {
        VF_CHECK(c, got.value() == T() || ref.calls == 0, "C13:empty-value", what << ": no result with non-zero calls but value "
            << vf::show(got.value()));
        return;
    }
    long double const tolE = 16 * m * eps * (fabs(ref.E) + (ref.maxE - ref.minE));
    long double const errE = fabs(static_cast<long double>(got.value()) - ref.E);
    c.note_margin(tolE, errE);
    VF_CHECK(c, errE <= tolE, "C13:estimate", what << ": estimate " << vf::show(got.value()) << " model "
        << vf::show<long double>(ref.E) << " tolerance " << vf::show<long double>(tolE));
    VF_CHECK(c, static_cast<long double>(got.value()) >= ref.minE - tolE && static_cast<long double>(got.value()) <= ref.maxE + tolE,
        "C13:bounds", what << ": estimate " << vf::show(got.value()) << " outside [" << vf::show<long double>(ref.minE) << ", "
        << vf::show<long double>(ref.maxE) << "]");
    long double const kappa = 1.0L + ref.E * ref.E / ((ref.calls - 1.0L) * ref.S * ref.S);
    long double const relS = 16 * m * eps * kappa;
    if (relS >= 0.25L) { illcond = true; return; }
    long double const errS = fabs(static_cast<long double>(got.error()) - ref.S);
    c.note_margin(relS * ref.S, errS);
    VF_CHECK(c, errS <= relS * ref.S, "C13:error", what << ": error " << vf::show(got.error()) << " model "
        << vf::show<long double>(ref.S) << " relative tolerance " << vf::show<long double>(relS));
    VF_CHECK(c, static_cast<long double>(got.error()) <= ref.minS * (1 + relS), "C13:error-bound", what << ": error "
        << vf::show(got.error()) << " larger than the smallest input error " << vf::show<long double>(ref.minS));
}

template <typename T>
void run_t(vf::Ctx& c)
{
    using std::fabs;
    vf::Tape& t = c.t;
    using R = hep::mc_result<T>;
    using It = typename std::vector<R>::const_iterator;
    std::size_t const m = t.pick(5) == 4 ? t.range(0, 12) : t.range(0, 5);
    int const dec = lim<T>::decades;
    T const scale = t.flag() ? static_cast<T>(std::pow(10.0L, static_cast<long double>(static_cast<int>(t.range(0, 12)) - 6)))
                             : static_cast<T>(std::pow(10.0L, static_cast<long double>(static_cast<int>(t.range(0, 2 * dec)) - dec)));
    if (std::fabs(std::log10(static_cast<long double>(scale))) > 300) { c.label("beyond-double-range"); }
    bool const allow_empty = t.flag();
    std::vector<R> rs;
    for (std::size_t i = 0; i != m; ++i) { rs.push_back(gen_result<T>(t, allow_empty, scale)); }
    c.desc << vf::type_name<T>::get() << " results=" << show_results(rs);

    std::size_t empties = 0;
    long double vmin = 0, vmax = 0;
    bool firstv = true;
    for (auto const& r : rs)
    {
        if (r.non_zero_calls() == 0) { ++empties; continue; }
        long double const var = r.variance();
        if (firstv) { vmin = vmax = var; firstv = false; }
        vmin = std::min(vmin, var);
        vmax = std::max(vmax, var);
    }
    if (empties) { c.label("has-empty-result"); }
    if (m == 0) { c.label("no-results"); }
    if (m == 1) { c.label("one-result"); }
    { std::size_t tot = 0; for (auto const& r : rs) { tot += r.calls(); } if (tot > (std::size_t(1) << 32)) { c.label("total-calls>2^32"); } }

    bool illcond = false;
    // --- weighted_with_variance -----------------------------------------------------------------
    R const ww = hep::accumulate<hep::weighted_with_variance>(rs.cbegin(), rs.cend());
    check_weighted<T, It>(c, rs.cbegin(), rs.cend(), ww, "weighted_with_variance", illcond);

    // order independence: a generated permutation and the reversal
    if (m >= 2)
    {
        std::vector<R> perm = rs;
        std::uint64_t const ps = t.stream_seed();
        for (std::size_t i = perm.size(); i > 1; --i) { std::swap(perm[i - 1], perm[vf::mix2(ps, i) % i]); }
        std::vector<R> rev(rs.rbegin(), rs.rend());
        for (auto const* p : {&perm, &rev})
        {
            R const w2 = hep::accumulate<hep::weighted_with_variance>(p->cbegin(), p->cend());
            check_weighted<T, It>(c, p->cbegin(), p->cend(), w2, "weighted_with_variance (permuted)", illcond);
            Ref<T> const ref = reference<T>(rs.cbegin(), rs.cend());
            long double const tolE = 32 * std::max<std::size_t>(1, ref.used) * vf::eps<T>() * (fabs(ref.E) + (ref.maxE - ref.minE));
            VF_CHECK(c, fabs(static_cast<long double>(w2.value()) - static_cast<long double>(ww.value())) <= tolE,
                "C13:order", "estimate depends on the order: " << vf::show(ww.value()) << " vs " << vf::show(w2.value()));
            VF_CHECK(c, w2.calls() == ww.calls() && w2.non_zero_calls() == ww.non_zero_calls() && w2.finite_calls() == ww.finite_calls(),
                "C13:order-counters", "counters depend on the order");
        }
    }

    // --- weighted_equally -------------------------------------------------------------------------
    {
        R const we = hep::accumulate<hep::weighted_equally>(rs.cbegin(), rs.cend());
        if (m == 0)
        {
            VF_CHECK(c, we.calls() == 0 && we.non_zero_calls() == 0 && we.finite_calls() == 0 && we.sum() == T() && we.sum_of_squares() == T(),
                "C13:equal-empty", "weighted_equally of nothing is not the zero result");
        }
        else if (m == 1)
        {
            VF_CHECK(c, we.calls() == rs[0].calls() && we.non_zero_calls() == rs[0].non_zero_calls() && we.finite_calls() == rs[0].finite_calls()
                && vf::same_bits(we.sum(), rs[0].sum()) && vf::same_bits(we.sum_of_squares(), rs[0].sum_of_squares()),
                "C13:equal-identity", "weighted_equally of one result is not that result");
        }
        else
        {
            std::size_t calls = 0, nz = 0, fin = 0;
            long double s = 0, s2 = 0;
            for (auto const& r : rs)
            {
                calls += r.calls(); nz += r.non_zero_calls(); fin += r.finite_calls();
                long double const v = r.value();
                s += v; s2 += v * v;
            }
            long double const mean = s / m, meansq = s2 / m;
            // variance of the mean, computed without cancellation
            long double dev = 0;
            for (auto const& r : rs) { long double const d = static_cast<long double>(r.value()) - mean; dev += d * d; }
            long double const var = dev / m / (m - 1.0L);
            VF_CHECK(c, we.calls() == calls && we.non_zero_calls() == nz && we.finite_calls() == fin, "C13:equal-counters",
                "weighted_equally counters");
            long double const eps = vf::eps<T>();
            long double maxabs = 0;
            for (auto const& r : rs) { maxabs = std::max<long double>(maxabs, fabs(static_cast<long double>(r.value()))); }
            long double const tolE = 8 * m * eps * maxabs;
            long double const errE = fabs(static_cast<long double>(we.value()) - mean);
            c.note_margin(tolE, errE);
            VF_CHECK(c, errE <= tolE, "C13:equal-mean", "weighted_equally mean " << vf::show(we.value()) << " model " << vf::show<long double>(mean));
            // variance: cancellation in (sum_sq/m - mean^2) and in the (value, error) <-> (sum, sumsq) conversion
            long double const tolV = 16 * eps * (m * meansq / (m - 1.0L) + mean * mean / (calls - 1.0L) + var);
            if (tolV < 0.25L * var)
            {
                long double const errV = fabs(static_cast<long double>(we.variance()) - var);
                c.note_margin(tolV, errV);
                VF_CHECK(c, errV <= tolV, "C13:equal-error", "weighted_equally variance " << vf::show(we.variance()) << " model "
                    << vf::show<long double>(var) << " tol " << vf::show<long double>(tolV));
            }
            else { illcond = true; }
        }
    }

    // --- a result of an iteration with zero calls (the neutral element accumulate returns for an empty range; an iteration
    //     that was given 0 calls) anywhere in the sequence changes nothing: it has no non-zero call
    if (m >= 1)
    {
        std::vector<R> with0 = rs;
        with0.insert(with0.begin() + static_cast<std::ptrdiff_t>(vf::mix2(0xC13, m) % (m + 1)), R(0, 0, 0, T(), T()));
        R const w0 = hep::accumulate<hep::weighted_with_variance>(with0.cbegin(), with0.cend());
        auto same_num = [](T a, T b) { return (std::isnan(a) && std::isnan(b)) || vf::same_bits(a, b); };
        VF_CHECK(c, w0.calls() == ww.calls() && w0.non_zero_calls() == ww.non_zero_calls() && w0.finite_calls() == ww.finite_calls() && same_num(w0.value(), ww.value())
            && same_num(w0.error(), ww.error()), "C13:zero-call-result", "inserting a result with zero calls changes the combination from " << vf::show(ww.value()) << " +- " << vf::show(ww.error())
            << " to " << vf::show(w0.value()) << " +- " << vf::show(w0.error()));
        ++c.sub;
    }
    // --- chi^2 / dof of results one or two of which coincide with the combination exactly: E = a - d, a + d, a (, a) with
    //     S = 1/2 each (small integers, every intermediate is exact): chi^2/dof = 8 d^2 / (m - 1)
    {
        long double const a = static_cast<long double>(vf::mix2(0xC13C, m) % 7) - 3, d = 1 + static_cast<long double>(vf::mix2(0xC13D, m) % 3);
        std::size_t const N = 2 + vf::mix2(0xC13E, m) % 50;
        for (std::size_t count : {std::size_t(3), std::size_t(4)})
        {
            std::vector<R> q;
            q.push_back(hep::create_result<T>(N, N, N, static_cast<T>(a - d), T(0.5)));
            q.push_back(hep::create_result<T>(N, N, N, static_cast<T>(a + d), T(0.5)));
            for (std::size_t i = 2; i != count; ++i) { q.push_back(hep::create_result<T>(N, N, N, static_cast<T>(a), T(0.5))); }
            T const chi = hep::chi_square_dof<hep::weighted_with_variance>(q.cbegin(), q.cend());
            long double const ref = 8 * d * d / (count - 1.0L);
            VF_CHECK(c, fabs(static_cast<long double>(chi) - ref) <= 64 * vf::eps<T>() * ref, "C13:chi-coinciding", "chi^2/dof of " << count << " results (E = " << vf::show<long double>(a - d) << ", "
                << vf::show<long double>(a + d) << ", " << vf::show<long double>(a) << " .., S = 1/2) is " << vf::show(chi) << ", expected " << vf::show<long double>(ref));
            ++c.sub;
        }
    }
    // --- chi^2 / dof --------------------------------------------------------------------------------
    {
        bool all_nonempty = empties == 0;
        T const chi = hep::chi_square_dof<hep::weighted_with_variance>(rs.cbegin(), rs.cend());
        if (m == 0) { VF_CHECK(c, chi == T(), "C13:chi-empty", "chi^2/dof of no results is " << vf::show(chi)); }
        else if (m == 1) { VF_CHECK(c, std::isinf(chi) && chi > 0, "C13:chi-one", "chi^2/dof of one result is " << vf::show(chi)); }
        else if (all_nonempty)
        {
            VF_CHECK(c, chi >= T(), "C13:chi-negative", "chi^2/dof = " << vf::show(chi));
            // model: sum (E_i - E)^2 / S_i^2 / (m - 1) with the library's own combined value
            long double s = 0, scale_terms = 0;
            for (auto const& r : rs)
            {
                long double const d = static_cast<long double>(r.value()) - static_cast<long double>(ww.value());
                s += d * d / static_cast<long double>(r.variance());
                scale_terms += (fabs(static_cast<long double>(r.value())) + fabs(static_cast<long double>(ww.value())))
                    * fabs(d) / static_cast<long double>(r.variance());
            }
            long double const ref = s / (m - 1.0L);
            long double const tol = 16 * m * vf::eps<T>() * (ref + scale_terms / (m - 1.0L));
            long double const err = fabs(static_cast<long double>(chi) - ref);
            if (std::isfinite(ref) && tol < 1e30L)
            {
                c.note_margin(tol, err);
                VF_CHECK(c, err <= tol, "C13:chi-value", "chi^2/dof " << vf::show(chi) << " model " << vf::show<long double>(ref));
            }
        }
    }

    {
        // the same three statements for the equally weighted reference value
        T const chie = hep::chi_square_dof<hep::weighted_equally>(rs.cbegin(), rs.cend());
        if (m == 0) { VF_CHECK(c, chie == T(), "C13:chi-empty", "chi^2/dof (equal weights) of no results is " << vf::show(chie)); }
        else if (m == 1) { VF_CHECK(c, std::isinf(chie) && chie > 0, "C13:chi-one", "chi^2/dof (equal weights) of one result is " << vf::show(chie)); }
        else if (empties == 0) { VF_CHECK(c, chie >= T(), "C13:chi-negative", "chi^2/dof (equal weights) = " << vf::show(chie)); }
    }

    // --- distributions: the same rule independently for every bin ---------------------------------
    bool with_dist = m >= 1 && t.chance(1, 3);
    if (with_dist)
    {
        std::size_t const nd = 1 + t.pick(2);
        std::vector<hep::distribution_parameters<T>> params;
        for (std::size_t d = 0; d != nd; ++d)
        {
            std::size_t const bx = 1 + t.pick(4), by = t.flag() ? 1 : 1 + t.pick(3);
            params.emplace_back(bx, by, T(-1), T(3), T(0), T(2), d ? "second dist" : "first");
        }
        // bins[j][k][i] : result i of bin k of distribution j
        std::vector<std::vector<std::vector<R>>> bins(nd);
        std::vector<hep::plain_result<T>> prs;
        for (std::size_t j = 0; j != nd; ++j)
        {
            bins[j].resize(params[j].bins_x() * params[j].bins_y());
        }
        for (std::size_t i = 0; i != m; ++i)
        {
            std::vector<hep::distribution_result<T>> drs;
            for (std::size_t j = 0; j != nd; ++j)
            {
                std::vector<R> row;
                for (std::size_t k = 0; k != bins[j].size(); ++k)
                {
                    // a bin has the call count of its iteration
                    R const b = gen_result<T>(t, true, scale, rs[i].calls());
                    bins[j][k].push_back(b);
                    row.push_back(b);
                }
                drs.emplace_back(params[j], row);
            }
            prs.emplace_back(drs, rs[i].calls(), rs[i].non_zero_calls(), rs[i].finite_calls(), rs[i].sum(), rs[i].sum_of_squares());
        }
        auto const comb = hep::accumulate<hep::weighted_with_variance>(prs.cbegin(), prs.cend());
        auto const combeq = hep::accumulate<hep::weighted_equally>(prs.cbegin(), prs.cend());
        auto same = [](R const& a, R const& b) {
            return a.calls() == b.calls() && a.non_zero_calls() == b.non_zero_calls() && a.finite_calls() == b.finite_calls()
                && vf::same_bits(a.sum(), b.sum()) && vf::same_bits(a.sum_of_squares(), b.sum_of_squares());
        };
        VF_CHECK(c, same(comb, ww), "C13:dist-integrated", "integrated part of a combination with distributions differs from the plain combination");
        VF_CHECK(c, comb.distributions().size() == nd && combeq.distributions().size() == nd, "C13:dist-count", "number of distributions "
            << comb.distributions().size());
        for (std::size_t j = 0; j != nd; ++j)
        {
            auto const& dr = comb.distributions()[j];
            VF_CHECK(c, dr.results().size() == bins[j].size(), "C13:dist-bins", "bin count " << dr.results().size());
            VF_CHECK(c, dr.parameters().name() == params[j].name() && dr.parameters().bins_x() == params[j].bins_x()
                && dr.parameters().bins_y() == params[j].bins_y(), "C13:dist-params", "parameters of distribution " << j << " changed");
            for (std::size_t k = 0; k != bins[j].size(); ++k)
            {
                R const direct = hep::accumulate<hep::weighted_with_variance>(bins[j][k].cbegin(), bins[j][k].cend());
                VF_CHECK(c, same(dr.results()[k], direct), "C13:dist-bin", "bin " << k << " of distribution " << j
                    << " is not the combination of that bin's results: " << vf::show(dr.results()[k].value()) << " vs "
                    << vf::show(direct.value()) << " inputs " << show_results(bins[j][k]));
                bool ill = false;
                check_weighted<T, It>(c, bins[j][k].cbegin(), bins[j][k].cend(), dr.results()[k], "bin combination", ill);
                R const directeq = hep::accumulate<hep::weighted_equally>(bins[j][k].cbegin(), bins[j][k].cend());
                VF_CHECK(c, same(combeq.distributions()[j].results()[k], directeq), "C13:dist-bin-equal", "equally weighted bin " << k);
                ++c.sub;
            }
        }
        c.label("with-distributions");
        c.desc << " +distributions=" << nd;
    }
    if (illcond) { c.label("ill-conditioned-error-skipped"); }
    c.nontrivial = (m >= 2 && vmax > 1.1L * vmin) || empties > 0 || with_dist;
    ++c.sub;
}

void run(vf::Ctx& c)
{
    vf::with_type(c.t, [&](auto tag) { run_t<decltype(tag)>(c); });
}

} // namespace

vf::Property const vf::property = {"C13", "", run, nullptr, nullptr};
