// C02 - each iteration result is the documented estimator of exactly the sampled values.
// Domain: integrator x numeric type x dimensions x 1..4 iterations with unequal N (0, 1, 2, 3, odd,
// up to 2000) x integrand values dictated per call (zero / sign / magnitude patterns, position
// dependent, a few non-finite) x grids (uniform, user, adapting) / PWC channels with unequal weights,
// optionally with distributions. The integrand logs f and - only when f != 0 - the weight, the VEGAS
// bins, the channel and the coordinates. Oracle: everything is recomputed from the log alone.
#include "hep/mc.hpp"

#include "../lib/exactsum.hpp"
#include "../lib/gen.hpp"
#include "../lib/pwc.hpp"
#include "../lib/harness.hpp"

#include <random>

namespace
{

template <typename T>
struct Rec
{
    T f = T(0), w = T(0);
    std::vector<std::size_t> bins;
    std::size_t channel = 0;
    std::vector<T> x;
};

template <typename T>
struct Log
{
    std::vector<Rec<T>> recs;
    std::vector<std::size_t> cuts; // recs.size() at each callback invocation
    int pattern = 0;
    std::uint64_t seed = 0;
    T scale = T(1);
    bool with_dist = false;
    std::size_t dims = 1;
};

template <typename T>
T dictated(Log<T> const& l, std::size_t i, std::vector<T> const& x)
{
    long double v;
    switch (l.pattern)
    {
    case 0: v = 0; break;                                                              // all zero
    case 1: v = (i % 97 == 3) ? 1.5L : 0; break;                                       // rare non-zero
    case 2: v = (i % 2) ? -1.0L - vf::stream_unit(l.seed, i) : 1.0L + vf::stream_unit(l.seed, i); break; // alternating sign
    case 3: v = std::pow(10.0L, 6 * vf::stream_unit(l.seed, 2 * i) - 3) * ((vf::mix2(l.seed, 2 * i + 1) & 1) ? 1 : -1); break;
    case 4: v = (vf::stream_unit(l.seed, i) < 0.6) ? 0.0L : 1 + vf::stream_unit(l.seed, i + 1000003); break; // zero with probability
    case 5: { v = 1; for (auto c : x) { v *= (0.5L + c); } break; }                    // position dependent
    case 6: v = (x[0] < T(0.5)) ? 0.0L : 2.0L * x[0]; break;                           // zero region
    case 7:                                                                            // a few non-finite ones
    {
        std::uint64_t const r = vf::mix2(l.seed, i) % 23;
        if (r == 0) { return std::numeric_limits<T>::quiet_NaN(); }
        if (r == 1) { return std::numeric_limits<T>::infinity(); }
        if (r == 2) { return -std::numeric_limits<T>::infinity(); }
        v = 1 + x[0];
        break;
    }
    default: v = 1; break;                                                             // constant
    }
    return static_cast<T>(v) * l.scale;
}

template <typename T>
struct Fn
{
    Log<T>* log;

    static std::vector<T> const& coords(hep::multi_channel_point<T> const& p) { return p.coordinates(); }
    static std::vector<T> const& coords(hep::mc_point<T> const& p) { return p.point(); }
    static void extra(hep::multi_channel_point<T> const& p, Rec<T>& r) { r.channel = p.channel(); r.x.assign(p.coordinates().begin(), p.coordinates().end()); }
    static void extra(hep::vegas_point<T> const& p, Rec<T>& r) { r.bins = p.bin(); }
    static void extra(hep::mc_point<T> const&, Rec<T>&) {}

    template <typename P>
    T eval(P const& p, hep::projector<T>* proj) const
    {
        Rec<T> r;
        r.f = dictated(*log, log->recs.size(), coords(p));
        if (r.f != T(0))
        {
            // only now: asking for the weight of a zero evaluation would perturb the lazy protocol
            r.w = p.weight();
            extra(p, r);
            if (proj) { proj->add(0, coords(p)[0], r.f); }
        }
        log->recs.push_back(r);
        return r.f;
    }
    template <typename P> T operator()(P const& p) const { return eval(p, nullptr); }
    template <typename P> T operator()(P const& p, hep::projector<T>& proj) const { return eval(p, &proj); }
};

template <typename T>
long double kahan_sum_ld(std::vector<long double> const& v)
{
    long double s = 0, c = 0;
    for (auto x : v) { long double const y = x - c; long double const t = s + y; c = (t - s) - y; s = t; }
    return s;
}

template <typename T>
struct IterCheck
{
    vf::Ctx& c;
    std::size_t k;

    void close(long double got, long double ref, long double tol, char const* sig, char const* what) const
    {
        long double const err = std::fabs(got - ref);
        c.note_margin(tol, err);
        VF_CHECK(c, err <= tol, sig, "iteration " << k << ": " << what << " = " << vf::show<long double>(got) << ", from the log "
            << vf::show<long double>(ref) << " (tolerance " << vf::show<long double>(tol) << ")");
    }
};

// checks the mc_result part of one iteration; returns the sanitised values v_i (0 for zero / non-finite)
template <typename T, typename Result>
std::vector<T> check_basic(vf::Ctx& c, std::size_t k, Result const& res, Rec<T> const* begin, Rec<T> const* end, std::size_t N)
{
    IterCheck<T> ic{c, k};
    std::size_t const logged = end - begin;
    VF_CHECK(c, logged == N, "C02:integrand-calls", "iteration " << k << ": " << N << " calls requested, integrand evaluated " << logged << " times");
    VF_CHECK(c, res.calls() == N, "C02:calls", "iteration " << k << ": calls() = " << res.calls() << " for " << N << " requested");
    std::size_t nz = 0, fin = 0;
    vf::ExactSum<T> exact;
    std::vector<long double> squares;
    std::vector<T> v(logged, T(0));
    long double sumsq_abs = 0, sq_slack = 0;
    for (std::size_t i = 0; i != logged; ++i)
    {
        Rec<T> const& r = begin[i];
        if (r.f == T(0)) { continue; } // note: NaN != 0 is true, NaN counts as non-zero
        ++nz;
        T const val = r.f * r.w;
        if (!std::isfinite(val)) { continue; }
        ++fin;
        v[i] = val;
        exact.add(val);
        squares.push_back(static_cast<long double>(val) * val);
        sumsq_abs += static_cast<long double>(val) * val;
        // a square in the denormal range of T is computed with a few bits only: absolute, not relative, accuracy
        if (static_cast<long double>(val) * val < static_cast<long double>(std::numeric_limits<T>::min()) * std::ldexp(1.0L, std::numeric_limits<T>::digits)) { sq_slack += std::numeric_limits<T>::min(); }
    }
    VF_CHECK(c, res.non_zero_calls() == nz, "C02:non-zero-calls", "iteration " << k << ": non_zero_calls() = " << res.non_zero_calls() << ", log has " << nz);
    VF_CHECK(c, res.finite_calls() == fin, "C02:finite-calls", "iteration " << k << ": finite_calls() = " << res.finite_calls() << ", log has " << fin);
    long double const eps = vf::eps<T>();
    ic.close(res.sum(), exact.value(), (4 * eps + 4 * N * eps * eps) * exact.abs_sum() + 2 * eps * std::fabs(exact.value()), "C02:sum", "sum()");
    long double const sq = kahan_sum_ld<T>(squares);
    ic.close(res.sum_of_squares(), sq, (N + 4) * eps * sumsq_abs + sq_slack, "C02:sum-of-squares", "sum_of_squares()");
    if (N >= 1)
    {
        long double const E = static_cast<long double>(res.sum()) / N;
        ic.close(res.value(), E, 4 * eps * std::fabs(E) + std::numeric_limits<T>::denorm_min(), "C02:value", "value()");
    }
    if (N >= 2)
    {
        long double const E = static_cast<long double>(res.sum()) / N;
        long double const a = static_cast<long double>(res.sum_of_squares()) / N, b = E * E;
        long double const var = (a - b) / (N - 1.0L);
        long double const tol = 8 * eps * (a + b) / (N - 1.0L);
        ic.close(res.variance(), var, tol + std::numeric_limits<T>::denorm_min(), "C02:variance", "variance()");
        {
            // error() is the square root of variance(), whatever its sign: NaN for a variance that rounding made negative
            using std::sqrt;
            T const root = sqrt(res.variance());
            VF_CHECK(c, (std::isnan(root) && std::isnan(res.error())) || vf::same_bits(root, res.error()), "C02:error-is-root", "iteration " << k << ": error() = " << vf::show(res.error())
                << " but sqrt(variance()) = " << vf::show(root) << " (variance " << vf::show(res.variance()) << ")");
        }
        if (var > 16 * tol)
        {
            long double const s = std::sqrt(var);
            ic.close(res.error(), s, (tol / var + 4 * eps) * s, "C02:error", "error()");
        }
    }
    return v;
}

template <typename T>
std::vector<std::size_t> gen_calls(vf::Tape& t)
{
    std::size_t const iters = 1 + t.pick(4);
    std::vector<std::size_t> calls;
    for (std::size_t i = 0; i != iters; ++i)
    {
        switch (t.pick(5))
        {
        case 0: calls.push_back(t.range(0, 3)); break;
        case 1: calls.push_back(2 * t.range(0, 20) + 1); break;
        case 2: calls.push_back(t.range(0, 2000)); break;
        default: calls.push_back(10 + t.range(0, 300)); break;
        }
    }
    return calls;
}

template <typename T>
void run_t(vf::Ctx& c)
{
    vf::Tape& t = c.t;
    Log<T> log;
    int const integrator = static_cast<int>(t.pick(3));
    log.pattern = static_cast<int>(t.pick(9));
    log.seed = t.stream_seed();
    {
        int const e = static_cast<int>(t.range(0, 9));
        log.scale = static_cast<T>(std::pow(10.0L, static_cast<long double>((e == 9 ? 0 : e) - 4)));
        // PLAIN only (weight 1): values in the subnormal range of T are sampled values like any other
        if (e == 9 && integrator == 0) { log.scale = std::numeric_limits<T>::denorm_min() * T(256); c.label("subnormal-values"); }
    }
    log.with_dist = t.pick(3) == 0;
    std::vector<std::size_t> const calls = gen_calls<T>(t);
    std::uint32_t const seed = 1 + static_cast<std::uint32_t>(t.next() % 1000000u);
    std::vector<hep::distribution_parameters<T>> params;
    if (log.with_dist) { params.emplace_back(4, T(0), T(1), "c02"); }
    Fn<T> fn{&log};
    c.desc << vf::type_name<T>::get() << (integrator == 0 ? " PLAIN" : integrator == 1 ? " VEGAS" : " MULTI") << " pattern=" << log.pattern << " scale="
           << vf::show(log.scale) << " calls=" << vf::show(calls) << " seed=" << seed << (log.with_dist ? " +dist" : "");
    bool mixed = false, nonuniform = false;
    auto cut = [&log](auto const&) { log.cuts.push_back(log.recs.size()); return true; };

    if (integrator == 0)
    {
        std::size_t const dims = 1 + t.pick(4);
        log.dims = dims;
        auto chk = hep::make_plain_chkpt<T>(std::mt19937(seed));
        decltype(chk) out = chk;
        if (log.with_dist) { hep::integrand<T, Fn<T>, true> ig(fn, dims, params); out = hep::plain(ig, calls, chk, cut); }
        else { hep::integrand<T, Fn<T>, false> ig(fn, dims, params); out = hep::plain(ig, calls, chk, cut); }
        VF_CHECK(c, out.results().size() == calls.size() && log.cuts.size() == calls.size(), "C02:iterations", "performed " << out.results().size());
        std::size_t b = 0;
        for (std::size_t k = 0; k != calls.size(); ++k)
        {
            for (std::size_t i = b; i != log.cuts[k]; ++i) { if (log.recs[i].f != T(0)) { VF_CHECK(c, log.recs[i].w == T(1), "C02:plain-weight", "PLAIN weight " << vf::show(log.recs[i].w)); } }
            check_basic<T>(c, k, out.results()[k], log.recs.data() + b, log.recs.data() + log.cuts[k], calls[k]);
            b = log.cuts[k];
            ++c.sub;
        }
        nonuniform = true; // nothing adaptive
    }
    else if (integrator == 1)
    {
        std::size_t const dims = 1 + t.pick(4), bins = 2 + t.pick(15);
        log.dims = dims;
        hep::vegas_pdf<T> pdf(dims, bins);
        bool const user = t.flag();
        if (user)
        {
            for (std::size_t d = 0; d != dims; ++d) { for (std::size_t bb = 1; bb < bins; ++bb) { pdf.set_bin_left(d, bb, static_cast<T>(std::pow(static_cast<long double>(bb) / bins, 1.5L + d))); } }
        }
        T const alpha = t.flag() ? T(1.5) : T(0.7);
        auto chk = hep::make_vegas_chkpt<T>(pdf, alpha, std::mt19937(seed));
        decltype(chk) out = chk;
        if (log.with_dist) { hep::integrand<T, Fn<T>, true> ig(fn, dims, params); out = hep::vegas(ig, calls, chk, cut); }
        else { hep::integrand<T, Fn<T>, false> ig(fn, dims, params); out = hep::vegas(ig, calls, chk, cut); }
        c.desc << " d=" << dims << " bins=" << bins << (user ? " usergrid" : " uniform") << " alpha=" << vf::show(alpha);
        VF_CHECK(c, out.results().size() == calls.size() && log.cuts.size() == calls.size(), "C02:iterations", "performed " << out.results().size());
        std::size_t b = 0;
        for (std::size_t k = 0; k != calls.size(); ++k)
        {
            auto const& res = out.results()[k];
            std::vector<T> const v = check_basic<T>(c, k, res, log.recs.data() + b, log.recs.data() + log.cuts[k], calls[k]);
            // adjustment data: per bin sums of v^2
            std::vector<std::vector<long double>> terms(dims * bins);
            std::vector<long double> mags(dims * bins, 0.0L), slack(dims * bins, 0.0L);
            for (std::size_t i = b; i != log.cuts[k]; ++i)
            {
                T const val = v[i - b];
                if (val == T(0)) { continue; }
                for (std::size_t d = 0; d != dims; ++d)
                {
                    VF_CHECK(c, log.recs[i].bins.size() == dims && log.recs[i].bins[d] < bins, "C02:vegas-bin", "bin index out of range");
                    std::size_t const slot = d * bins + log.recs[i].bins[d];
                    terms[slot].push_back(static_cast<long double>(val) * val);
                    mags[slot] += static_cast<long double>(val) * val;
                    if (static_cast<long double>(val) * val < static_cast<long double>(std::numeric_limits<T>::min()) * std::ldexp(1.0L, std::numeric_limits<T>::digits)) { slack[slot] += std::numeric_limits<T>::min(); }
                }
            }
            VF_CHECK(c, res.adjustment_data().size() == dims * bins, "C02:vegas-data-size", "adjustment data size " << res.adjustment_data().size());
            for (std::size_t slot = 0; slot != dims * bins; ++slot)
            {
                long double const ref = kahan_sum_ld<T>(terms[slot]);
                long double const tol = (terms[slot].size() + 4) * vf::eps<T>() * mags[slot] + slack[slot];
                long double const err = std::fabs(static_cast<long double>(res.adjustment_data()[slot]) - ref);
                c.note_margin(tol, err);
                VF_CHECK(c, err <= tol, "C02:vegas-adjustment-data", "iteration " << k << ": adjustment datum of dimension " << slot / bins << " bin "
                    << slot % bins << " = " << vf::show(res.adjustment_data()[slot]) << ", sum of (f*w)^2 over the calls in that bin = "
                    << vf::show<long double>(ref));
            }
            if (k > 0 || user) { nonuniform = true; }
            b = log.cuts[k];
            ++c.sub;
        }
    }
    else
    {
        std::size_t const channels = 1 + t.pick(5);
        vf::PwcFamily<T> fam = vf::gen_pwc<T>(t, 3, channels, 4);
        log.dims = fam.dims;
        std::vector<T> w = vf::gen_weights<T>(t, channels);
        w.resize(channels, T(1));
        T const beta = T(0.25), minw = t.flag() ? T(0) : T(0.05) / T(channels);
        // some density requests answer with a non-finite jacobian (a threshold in a phase-space map): f*w is not finite
        // there, the evaluation counts as non-zero but not as finite and contributes nothing
        std::vector<T> poison;
        bool const poisoned_map = t.pick(3) == 0;
        if (poisoned_map)
        {
            std::size_t total = 0;
            for (auto n : calls) { total += n; }
            for (std::size_t i = 0; i != total; ++i) { poison.push_back((i % 5 == 2) ? std::numeric_limits<T>::infinity() : ((i % 11 == 3) ? std::numeric_limits<T>::quiet_NaN() : T(-1))); }
        }
        vf::PwcMap<T> map{&fam, nullptr, poisoned_map ? &poison : nullptr};
        auto chk = hep::make_multi_channel_chkpt<T>(w, minw, beta, std::mt19937(seed));
        decltype(chk) out = chk;
        if (log.with_dist) { hep::multi_channel_integrand<T, Fn<T>, vf::PwcMap<T>, true> ig(fn, fam.dims, map, fam.map_dims, channels, params); out = hep::multi_channel(ig, calls, chk, cut); }
        else { hep::multi_channel_integrand<T, Fn<T>, vf::PwcMap<T>, false> ig(fn, fam.dims, map, fam.map_dims, channels, params); out = hep::multi_channel(ig, calls, chk, cut); }
        c.desc << ' ' << fam.describe() << " weights=" << vf::show(w) << " min=" << vf::show(minw) << (poisoned_map ? " non-finite-jacobians" : "");
        if (poisoned_map) { c.label("non-finite-weights"); }
        VF_CHECK(c, out.results().size() == calls.size() && log.cuts.size() == calls.size(), "C02:iterations", "performed " << out.results().size());
        std::size_t b = 0;
        for (std::size_t k = 0; k != calls.size(); ++k)
        {
            auto const& res = out.results()[k];
            std::vector<T> const v = check_basic<T>(c, k, res, log.recs.data() + b, log.recs.data() + log.cuts[k], calls[k]);
            std::vector<T> const& alpha = res.channel_weights();
            std::vector<std::vector<long double>> terms(channels);
            std::vector<long double> mags(channels, 0.0L), cslack(channels, 0.0L);
            for (std::size_t i = b; i != log.cuts[k]; ++i)
            {
                T const val = v[i - b];
                if (val == T(0)) { continue; }
                Rec<T> const& r = log.recs[i];
                std::vector<T> x(r.x.begin(), r.x.begin() + fam.dims);
                T const cf = fam.common_factor(x);
                // the weight the library reported must be J / sum_j alpha_j p_j
                long double tot = 0;
                std::vector<T> dens(channels, T(0));
                for (std::size_t j = 0; j != channels; ++j)
                {
                    if (alpha[j] != T(0)) { dens[j] = cf * fam.density(j, x); tot += static_cast<long double>(alpha[j]) * dens[j]; }
                }
                if (!std::isfinite(r.w)) { continue; } // cannot happen here (val would not be finite), kept for clarity
                long double const wref = static_cast<long double>(cf) / tot;
                long double const wtol = (4 + 2 * channels) * vf::eps<T>() * std::fabs(wref);
                VF_CHECK(c, std::fabs(static_cast<long double>(r.w) - wref) <= wtol, "C02:multi-channel-weight", "iteration " << k << ": weight "
                    << vf::show(r.w) << " but jacobian / sum alpha_j p_j = " << vf::show<long double>(wref));
                for (std::size_t j = 0; j != channels; ++j)
                {
                    if (alpha[j] == T(0)) { continue; }
                    long double const term = static_cast<long double>(dens[j]) * val * val * r.w;
                    terms[j].push_back(term);
                    mags[j] += std::fabs(term);
                    // the library forms value*value, then (value*value)*weight, then multiplies with p_j: an intermediate in the
                    // denormal range of T carries an absolute error of half a denorm_min, scaled by the remaining factors
                    long double const lim = static_cast<long double>(std::numeric_limits<T>::min()) * std::ldexp(1.0L, std::numeric_limits<T>::digits);
                    long double const dmin = std::numeric_limits<T>::denorm_min();
                    long double const sqv = static_cast<long double>(val) * val, sqw = std::fabs(sqv * r.w);
                    if (sqv < lim) { cslack[j] += dmin * std::fabs(static_cast<long double>(dens[j]) * r.w) * 2 + std::numeric_limits<T>::min(); }
                    if (sqw < lim) { cslack[j] += dmin * std::fabs(static_cast<long double>(dens[j])) * 2 + std::numeric_limits<T>::min(); }
                }
            }
            for (std::size_t j = 0; j != channels; ++j)
            {
                if (alpha[j] == T(0)) { continue; } // the slot of a disabled channel is documented as ignored
                long double const ref = kahan_sum_ld<T>(terms[j]);
                long double const tol = (terms[j].size() + 6) * vf::eps<T>() * mags[j] + cslack[j];
                long double const err = std::fabs(static_cast<long double>(res.adjustment_data()[j]) - ref);
                c.note_margin(tol, err);
                VF_CHECK(c, err <= tol, "C02:multi-channel-adjustment-data", "iteration " << k << ": adjustment datum of channel " << j << " = "
                    << vf::show(res.adjustment_data()[j]) << ", sum of p_j (f*w)^2 w from the log = " << vf::show<long double>(ref) << " (tolerance " << vf::show<long double>(tol)
                    << ", " << terms[j].size() << " terms)");
            }
            bool unequal = false;
            for (std::size_t j = 1; j < channels; ++j) { if (alpha[j] != alpha[0]) { unequal = true; } }
            if (unequal) { nonuniform = true; }
            b = log.cuts[k];
            ++c.sub;
        }
    }
    std::size_t zeros = 0, nonzeros = 0;
    for (auto const& r : log.recs) { (r.f == T(0)) ? ++zeros : ++nonzeros; }
    mixed = zeros > 0 && nonzeros > 0;
    std::size_t maxn = 0;
    for (auto n : calls) { maxn = std::max(maxn, n); }
    if (mixed) { c.label("mixed-zero-nonzero"); }
    if (log.pattern == 7) { c.label("some-non-finite"); }
    for (auto n : calls) { if (n <= 3) { c.label("N<=3"); break; } }
    c.label(integrator == 0 ? "PLAIN" : integrator == 1 ? "VEGAS" : "MULTI");
    c.nontrivial = mixed && maxn >= 2 && nonuniform;
}

// the documented formulas hold for every N, also beyond anything an iteration in a test can perform:
// results built through the public constructor with N up to 2^53
template <typename T>
void formula_layer(vf::Ctx& c)
{
    vf::Tape& t = c.t;
    std::size_t N;
    switch (t.pick(5))
    {
    case 0: N = 2 + t.range(0, 100); break;
    case 1: N = (std::size_t(1) << 32) - 3 + t.range(0, 6); break;            // around 2^32
    case 2: N = (std::size_t(1) << (33 + t.pick(20))) + t.range(0, 1000); break; // beyond 2^32
    case 3: N = 2 + t.range(0, 100000000); break;
    default: N = std::size_t(3037000499ull) + t.range(0, 4); break;             // N(N-1) around 2^63
    }
    // magnitudes from 10^-2..10^2 up to a third of the exponent range of T (squares and N * squares stay finite)
    long double span = t.flag() ? 2.0L : static_cast<long double>(std::numeric_limits<T>::max_exponent10) / 3 - 8;
    if (std::is_same<T, float>::value) { span = 2.0L; if (N > (std::size_t(1) << 40)) { N = (std::size_t(1) << 40) + N % 1000; } } // (N E)^2 and N^2 S^2 must fit into float
    long double const E = (t.flag() ? -1 : 1) * std::pow(10.0L, span * (2 * t.unit() - 1));
    long double const rel = std::pow(10.0L, -2 + 3 * t.unit());
    long double const S = std::fabs(E) * rel; // error of the mean
    T const sum = static_cast<T>(static_cast<long double>(N) * E);
    T const sumsq = static_cast<T>(static_cast<long double>(N) * (E * E + (N - 1.0L) * S * S));
    hep::mc_result<T> const r(N, N / 2, N / 2, sum, sumsq);
    c.desc << vf::type_name<T>::get() << " formulas N=" << N << " sum=" << vf::show(sum) << " sumsq=" << vf::show(sumsq);
    long double const eps = vf::eps<T>();
    long double const Er = static_cast<long double>(sum) / N;
    long double const a = static_cast<long double>(sumsq) / N, b = Er * Er;
    long double const var = (a - b) / (N - 1.0L);
    IterCheck<T> ic{c, 0};
    ic.close(r.value(), Er, 4 * eps * std::fabs(Er), "C02:value", "value()");
    long double const tol = 8 * eps * (a + b) / (N - 1.0L);
    if (var > 64 * tol)
    {
        ic.close(r.variance(), var, tol, "C02:variance", "variance()");
        long double const s = std::sqrt(var);
        ic.close(r.error(), s, (tol / var + 4 * eps) * s, "C02:error", "error()");
        c.label("formula-layer-judged");
    }
    if (N > (std::size_t(1) << 32)) { c.label("N>2^32"); }
    if (std::fabs(std::log10(std::fabs(E))) > 300) { c.label("beyond-double-range"); }
    c.label("formula-layer");
    c.nontrivial = N > (std::size_t(1) << 32) && var > 64 * tol;
    ++c.sub;
}

void run(vf::Ctx& c)
{
    bool const formulas = c.t.pick(8) == 7;
    vf::with_type(c.t, [&](auto tag) { if (formulas) { formula_layer<decltype(tag)>(c); } else { run_t<decltype(tag)>(c); } });
}

} // namespace

vf::Property const vf::property = {"C02", "", run, nullptr, nullptr};
