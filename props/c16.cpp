// C16 - the MPI work split tiles the calls exactly.
// Domain: (total, world) with every (or sampled) rank. Oracle: 128-bit integer tiling model.
#include "hep/mc/generator_helper.hpp"

#include "../lib/gen.hpp"
#include "../lib/harness.hpp"

namespace
{

using u128 = unsigned __int128;

std::string s128(u128 v)
{
    if (v == 0) { return "0"; }
    std::string s;
    while (v) { s.insert(s.begin(), char('0' + int(v % 10))); v /= 10; }
    return s;
}

// the share of rank r as the MPI integrators compute it (mpi_plain.hpp:72, mpi_vegas.hpp:76,
// mpi_multi_channel.hpp:75); kept textually identical to the library expression
std::size_t sub_calls_as_in_library(std::size_t calls, std::size_t rank, std::size_t world)
{
    return (calls / world) + (static_cast<std::size_t>(rank) < (calls % world) ? 1 : 0);
}

void check_pair(vf::Ctx& c, std::uint64_t total, std::uint64_t world, std::vector<std::uint64_t> const& ranks,
    bool all_ranks)
{
    u128 const q = total / world, rem = total % world;
    u128 sum_sub = 0;
    u128 expect_before = 0;
    std::uint64_t prev_rank = 0;
    bool contiguous = all_ranks;
    for (std::uint64_t r : ranks)
    {
        std::size_t const sub = sub_calls_as_in_library(total, r, world);
        std::size_t const before = hep::discard_before(total, r, world);
        std::size_t const after = hep::discard_after(total, sub, r, world);
        // model: the first `rem` ranks get q+1 calls, shares are laid out in rank order
        u128 const m_sub = q + (r < rem ? 1 : 0);
        u128 const m_before = q * r + (r < rem ? r : rem);
        VF_CHECK(c, (u128) sub == m_sub, "C16:share", "total=" << total << " world=" << world << " rank=" << r
            << " share " << sub << " model " << s128(m_sub));
        VF_CHECK(c, sub == total / world || sub == total / world + 1, "C16:share-range", "share not floor/ceil");
        VF_CHECK(c, (u128) before == m_before, "C16:before", "total=" << total << " world=" << world << " rank="
            << r << " before " << before << " model " << s128(m_before));
        VF_CHECK(c, (u128) before + sub + after == (u128) total, "C16:after", "total=" << total << " world="
            << world << " rank=" << r << " before+share+after = " << s128((u128) before + sub + after));
        if (contiguous)
        {
            // rank order without gap or overlap
            (void) prev_rank;
            VF_CHECK(c, (u128) before == expect_before, "C16:contiguous", "total=" << total << " world=" << world
                << " rank=" << r << " starts at " << before << " but previous shares end at " << s128(expect_before));
            expect_before += sub;
            sum_sub += sub;
        }
        prev_rank = r;
        ++c.sub;
    }
    if (all_ranks)
    {
        VF_CHECK(c, sum_sub == (u128) total, "C16:sum", "total=" << total << " world=" << world
            << " shares sum to " << s128(sum_sub));
    }
}

void run(vf::Ctx& c)
{
    vf::Tape& t = c.t;
    std::uint64_t total, world;
    switch (t.pick(4))
    {
    case 0: // small box
        world = t.range(1, 64);
        total = t.range(0, 300);
        break;
    case 1: // medium
        world = t.range(1, 4096);
        total = t.range(0, 1u << 20);
        break;
    default: // log-uniform up to 2^40 / 2^20 with forced remainders
    {
        unsigned const wb = static_cast<unsigned>(t.range(0, 20));
        world = ((1ull << wb) | (t.bits() & ((1ull << wb) - 1)));
        unsigned const tb = static_cast<unsigned>(t.range(0, 40));
        total = (tb == 0) ? t.range(0, 1) : ((1ull << (tb - 1)) | (t.bits() & ((1ull << (tb - 1)) - 1)));
        switch (t.pick(5))
        {
        case 0: break;
        case 1: total -= total % world; break;                                    // remainder 0
        case 2: total = total - total % world + 1; break;                         // remainder 1 (or 0 if world 1)
        case 3: total = total - total % world + (world - 1); break;               // remainder world-1
        default: total = total - total % world + t.range(0, world - 1); break;
        }
        break;
    }
    }
    bool const all = world <= 2048;
    std::vector<std::uint64_t> ranks;
    if (all)
    {
        for (std::uint64_t r = 0; r != world; ++r) { ranks.push_back(r); }
    }
    else
    {
        std::uint64_t const rem = total % world;
        ranks = {0, 1, world - 1, world - 2, world / 2, rem, rem ? rem - 1 : 0, (rem + 1) % world};
        for (int i = 0; i != 24; ++i) { ranks.push_back(t.bits() % world); }
        std::sort(ranks.begin(), ranks.end());
        ranks.erase(std::unique(ranks.begin(), ranks.end()), ranks.end());
    }
    c.desc << "total=" << total << " world=" << world << " ranks=" << (all ? "all" : "sampled:" + std::to_string(ranks.size()));
    c.nontrivial = world >= 2 && total % world != 0;
    if (total < world) { c.label("total<world"); }
    if (total % world == 0) { c.label("divisible"); }
    if (total % world == 1) { c.label("rem=1"); }
    if (world > 1 && total % world == world - 1) { c.label("rem=world-1"); }
    if (total >= (1ull << 32)) { c.label("total>=2^32"); }
    check_pair(c, total, world, ranks, all);
}

void enumerate(vf::Enum& e)
{
    // exhaustive box: total <= 300, world <= 64, every rank (tape class 0 decodes it directly)
    for (std::uint64_t world = 1; world <= 64; ++world)
    {
        for (std::uint64_t total = 0; total <= 300; ++total)
        {
            if (!e.exec({0, world - 1, total})) { return; }
        }
    }
    e.exhaustive = true;
    e.space = "all (total, world, rank) with total <= 300, world <= 64, rank < world";
    if (vf::thorough())
    {
        // thorough tier: a larger box through tape class 1 (world <= 4096, total <= 2^20 decode directly)
        for (std::uint64_t world = 1; world <= 512; ++world)
        {
            for (std::uint64_t total = 0; total <= 2100; ++total)
            {
                if (world <= 64 && total <= 300) { continue; }
                if (!e.exec({1, world - 1, total})) { return; }
            }
        }
        e.space = "all (total, world, rank) with total <= 2100, world <= 512, rank < world";
    }
}

} // namespace

vf::Property const vf::property = {
    "C16",
    "case = (total, world) with every rank (world <= 2048) or 8 structural + 24 sampled ranks; "
    "non-trivial: world >= 2 and total mod world != 0; distinct by (total, world, rank set)",
    run, enumerate, nullptr};
