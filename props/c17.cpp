// C17 - the integrand and the channel map are called under the documented protocol.
// Domain: three integrators x numeric type x scripted canonical numbers (0, largest below 1, the raw
// output that would round to 1, generated) or a real engine x grids / weights incl. disabled channels
// x integrand behaviour per call (zero / non-zero / non-finite, asks for the weight itself, uses the
// projector) x maps that compute densities early or late.
// Oracle: invariant over the event log written by the instrumented integrand and map.
#include "hep/mc.hpp"

#include "../lib/gen.hpp"
#include "../lib/instruments.hpp"
#include "../lib/pwc.hpp"
#include "../lib/harness.hpp"

#include <random>

namespace
{

template <typename T>
std::uint64_t hash_vec(std::vector<T> const& v)
{
    std::uint64_t h = 1469598103934665603ull;
    for (auto const& x : v)
    {
        unsigned char b[sizeof(T)] = {0};
        std::memcpy(b, &x, vf::value_bytes<T>());
        for (std::size_t i = 0; i != vf::value_bytes<T>(); ++i) { h ^= b[i]; h *= 1099511628211ull; }
    }
    return h;
}

enum Ev { COORD, DENS, FBEGIN, FEND };

template <typename T>
struct Event
{
    Ev kind;
    std::size_t channel = 0;
    std::vector<T> rn;
    void const* rn_addr = nullptr;
    void const* coords_addr = nullptr;
    void const* dens_addr = nullptr;
    std::size_t coords_size = 0, dens_size = 0;
    std::vector<std::size_t> enabled;
    std::uint64_t coords_in = 0, dens_in = 0, coords_out = 0, dens_out = 0;
    // integrand events
    std::vector<T> point;
    std::vector<std::size_t> bins;
    T weight = T(0);
    bool asked_weight = false, used_projector = false;
    T returned = T(0);
};

template <typename T>
struct Log
{
    std::vector<Event<T>> ev;
    int pattern = 0;
    std::size_t calls_seen = 0;
    bool map_state_lost = false; // a densities request reached a map object that had not seen this point's coordinates request
};

template <typename T>
struct LogMap
{
    vf::PwcFamily<T> const* fam;
    Log<T>* log;
    // state held BY VALUE, as a caching phase-space generator would: what the last coordinates request was about
    mutable bool have_request = false;
    mutable std::size_t last_channel = 0;
    mutable std::vector<T> last_rn;

    T operator()(std::size_t channel, std::vector<T> const& rn, std::vector<T>& coords, std::vector<std::size_t> const& enabled,
        std::vector<T>& dens, hep::multi_channel_map action) const
    {
        if (action == hep::multi_channel_map::calculate_coordinates) { have_request = true; last_channel = channel; last_rn = rn; }
        else if (!have_request || last_channel != channel || !vf::same_bits(last_rn, rn)) { log->map_state_lost = true; }
        Event<T> e;
        e.kind = action == hep::multi_channel_map::calculate_coordinates ? COORD : DENS;
        e.channel = channel;
        e.rn = rn;
        e.rn_addr = &rn;
        e.coords_addr = &coords;
        e.dens_addr = &dens;
        e.coords_size = coords.size();
        e.dens_size = dens.size();
        e.enabled = enabled;
        e.coords_in = hash_vec(coords);
        e.dens_in = hash_vec(dens);
        vf::PwcMap<T> inner{fam, nullptr, nullptr};
        T j = T(1);
        bool const sane = channel < fam->channels && coords.size() >= fam->dims && dens.size() >= fam->channels && rn.size() >= fam->dims;
        if (sane) { j = inner(channel, rn, coords, enabled, dens, action); }
        if (e.kind == COORD && sane)
        {
            // leave a recognisable pattern in the part of the density buffer that the late variant does not fill yet
            if (!fam->dens_early) { for (std::size_t i = 0; i != dens.size(); ++i) { dens[i] = T(1000 + i) + rn[0]; } }
        }
        e.coords_out = hash_vec(coords);
        e.dens_out = hash_vec(dens);
        log->ev.push_back(e);
        return j;
    }
};

template <typename T>
struct LogFn
{
    Log<T>* log;
    mutable std::size_t invoked = 0; // state held BY VALUE: how often THIS function object was invoked

    static void extra(hep::vegas_point<T> const& p, Event<T>& e) { e.bins = p.bin(); }
    static void extra(hep::multi_channel_point<T> const& p, Event<T>& e) { e.channel = p.channel(); e.coords_addr = &p.coordinates(); e.coords_size = p.coordinates().size(); e.coords_in = hash_vec(p.coordinates()); }
    static void extra(hep::mc_point<T> const&, Event<T>&) {}

    template <typename P>
    T eval(P const& p, hep::projector<T>* proj) const
    {
        std::size_t const i = log->calls_seen++;
        ++invoked;
        Event<T> b;
        b.kind = FBEGIN;
        b.point = p.point();
        b.rn_addr = &p.point();
        extra(p, b);
        log->ev.push_back(b);
        // behaviour by pattern and call index
        T ret;
        bool ask = false, useproj = false;
        switch (log->pattern)
        {
        case 0: ret = T(1); break;
        case 1: ret = T(0); break;
        case 2: ret = (i % 2) ? T(0) : T(2); break;
        case 3: ret = T(0); ask = (i % 3 == 0); break;
        case 4: ret = (i % 2) ? T(0) : T(1); useproj = (i % 4 < 2); break;
        case 5: ret = (i % 3 == 0) ? std::numeric_limits<T>::quiet_NaN() : ((i % 3 == 1) ? T(0) : std::numeric_limits<T>::infinity()); break;
        default: ret = (i % 5 == 0) ? T(0) : T(-1); ask = (i % 2 == 0); break;
        }
        Event<T> e;
        e.kind = FEND;
        if (ask) { e.weight = p.weight(); e.asked_weight = true; }
        if (proj && useproj) { proj->add(0, p.point()[0], T(1)); e.used_projector = true; }
        e.returned = ret;
        log->ev.push_back(e);
        return ret;
    }
    template <typename P> T operator()(P const& p) const { return eval(p, nullptr); }
    template <typename P> T operator()(P const& p, hep::projector<T>& proj) const { return eval(p, &proj); }
};

// canonical numbers for one iteration: a scripted engine or a real one
template <typename T>
std::vector<std::uint64_t> gen_script(vf::Tape& t, std::size_t numbers, bool& has_extreme)
{
    std::vector<std::uint64_t> script;
    std::uint64_t const ss = t.stream_seed();
    for (std::size_t i = 0; i != numbers; ++i)
    {
        switch (vf::mix2(ss, i) % 8)
        {
        case 0: vf::push_canonical<T>(script, 0.0L); has_extreme = true; break;
        case 1: vf::push_canonical<T>(script, static_cast<long double>(std::nextafter(T(1), T(0)))); has_extreme = true; break;
        case 2: { static std::size_t const k = vf::draws_per_canonical<T, vf::script_engine>(); for (std::size_t j = 0; j != k; ++j) { script.push_back(~0ull); } has_extreme = true; break; }
        default: vf::push_canonical<T>(script, static_cast<long double>(vf::stream_unit(ss, i + 77))); break;
        }
    }
    return script;
}

template <typename T>
void run_t(vf::Ctx& c)
{
    vf::Tape& t = c.t;
    int const integrator = static_cast<int>(t.pick(3));
    std::size_t const calls = t.range(0, 60);
    Log<T> log;
    log.pattern = static_cast<int>(t.pick(7));
    bool const with_dist = t.flag();
    bool const scripted = t.pick(3) != 0;
    std::uint32_t const seed = 1 + static_cast<std::uint32_t>(t.next() % 100000u);
    std::vector<hep::distribution_parameters<T>> params;
    if (with_dist) { params.emplace_back(4, T(0), T(1), "c17"); }
    LogFn<T> fn{&log};
    bool has_extreme = false;
    c.desc << vf::type_name<T>::get() << (integrator == 0 ? " PLAIN" : integrator == 1 ? " VEGAS" : " MULTI") << " calls=" << calls << " pattern=" << log.pattern
           << (with_dist ? " +dist" : "") << (scripted ? " scripted" : " mt19937") << " seed=" << seed;

    auto iterate = [&](auto& ig_dist, auto& ig_plain, auto&& call) {
        if (with_dist) { call(ig_dist); } else { call(ig_plain); }
    };

    if (integrator == 0 || integrator == 1)
    {
        std::size_t const dims = 1 + t.pick(4);
        std::size_t const bins = 2 + t.pick(12);
        hep::vegas_pdf<T> pdf(dims, bins);
        if (t.flag()) { for (std::size_t d = 0; d != dims; ++d) { for (std::size_t b = 1; b < bins; ++b) { pdf.set_bin_left(d, b, static_cast<T>(std::pow(static_cast<long double>(b) / bins, 0.5L + d))); } } }
        std::vector<std::uint64_t> script = scripted ? gen_script<T>(t, calls * dims, has_extreme) : std::vector<std::uint64_t>();
        // degenerate grids, as adaptation down to the resolution of the type (or a user) produces them: bins of width zero
        // and bins one unit in the last place wide, at boundaries that are not dyadic
        std::size_t const degenerate = integrator == 1 ? t.pick(4) : 0;
        if (degenerate)
        {
            std::uint64_t const gs = t.stream_seed();
            for (std::size_t d = 0; d != dims; ++d)
            {
                for (std::size_t b = 1; b < bins; ++b)
                {
                    bool const hit = degenerate == 3 || (vf::mix2(gs, d * 64 + b) % 3 == 0);
                    if (!hit) { continue; }
                    T const prev = pdf.bin_left(d, b - 1);
                    T const base = (b == 1 || degenerate == 3) ? (b == 1 ? static_cast<T>(0.1L + 0.8L * vf::stream_unit(gs, d)) : prev) : prev;
                    T const left = std::max(prev, std::min(base, pdf.bin_left(d, b + 1)));
                    pdf.set_bin_left(d, b, degenerate == 2 ? std::min(std::nextafter(left, T(2)), pdf.bin_left(d, b + 1)) : left);
                }
            }
            c.label(degenerate == 2 ? "vegas-ulp-wide-bins" : "vegas-zero-width-bins");
        }
        hep::integrand<T, LogFn<T>, true> igd(fn, dims, params);
        hep::integrand<T, LogFn<T>, false> igp(fn, dims, params);
        iterate(igd, igp, [&](auto& ig) {
            if (scripted) { vf::script_engine e(script); if (integrator == 0) { hep::plain_iteration(ig, calls, e); } else { hep::vegas_iteration(ig, calls, pdf, e); } }
            else { std::mt19937 e(seed); if (integrator == 0) { hep::plain_iteration(ig, calls, e); } else { hep::vegas_iteration(ig, calls, pdf, e); } }
        });
        VF_CHECK(c, (with_dist ? igd.function().invoked : igp.function().invoked) == calls, "C17:function-object", "the function object of the integrand that was handed to the integrator was invoked "
            << (with_dist ? igd.function().invoked : igp.function().invoked) << " times for " << calls << " calls (a copy was invoked instead)");
        c.desc << " d=" << dims << (integrator == 1 ? " bins=" + std::to_string(bins) : std::string());
        // one FBEGIN/FEND pair per call, nothing else
        VF_CHECK(c, log.ev.size() == 2 * calls, "C17:integrand-count", "integrand invoked " << log.ev.size() / 2 << " times for " << calls << " calls");
        for (std::size_t i = 0; i != calls; ++i)
        {
            Event<T> const& b = log.ev[2 * i];
            Event<T> const& e = log.ev[2 * i + 1];
            VF_CHECK(c, b.kind == FBEGIN && e.kind == FEND, "C17:order", "event order");
            VF_CHECK(c, b.point.size() == dims, "C17:point-size", "point has " << b.point.size() << " coordinates, dimension " << dims);
            for (std::size_t j = 0; j != dims; ++j)
            {
                if (integrator == 0)
                {
                    VF_CHECK(c, b.point[j] >= T(0) && b.point[j] < T(1), "C17:plain-half-open", "PLAIN coordinate " << vf::show(b.point[j]) << " outside [0,1)");
                }
                else
                {
                    VF_CHECK(c, b.point[j] >= T(0) && b.point[j] <= T(1), "C17:vegas-closed", "VEGAS coordinate " << vf::show(b.point[j]) << " outside [0,1]");
                    VF_CHECK(c, b.bins.size() == dims && b.bins[j] < bins, "C17:vegas-bin", "bin index " << (b.bins.size() == dims ? b.bins[j] : 999999) << " of " << bins);
                    VF_CHECK(c, pdf.bin_left(j, b.bins[j]) <= b.point[j] && b.point[j] <= pdf.bin_left(j, b.bins[j] + 1), "C17:vegas-point-in-bin",
                        "point " << vf::show(b.point[j]) << " outside bin " << b.bins[j]);
                }
            }
            if (integrator == 0 && e.asked_weight) { VF_CHECK(c, e.weight == T(1), "C17:plain-weight", "PLAIN weight " << vf::show(e.weight)); }
            ++c.sub;
        }
        if (integrator == 1)
        {
            // a random number of exactly 1 cannot come out of libstdc++'s generate_canonical, but the documented
            // work-around in the sampling code is there for libraries that do return it: construct the point directly
            std::vector<T> specials = {T(1), T(0), std::nextafter(T(1), T(0)), T(0.5)};
            // every k / bins and its neighbours: the product u * bins rounds onto an integer there
            for (std::size_t k = 1; k < bins; ++k)
            {
                T const q = static_cast<T>(static_cast<long double>(k) / bins);
                specials.push_back(q); specials.push_back(std::nextafter(q, T(0))); specials.push_back(std::nextafter(q, T(2)));
            }
            for (T u : specials)
            {
                for (std::size_t j = 0; j != dims; ++j)
                {
                    std::vector<T> rn(dims, T(0.25));
                    rn[j] = u;
                    std::vector<std::size_t> bin(dims, 0);
                    hep::vegas_point<T> const p(rn, bin, pdf);
                    for (std::size_t k = 0; k != dims; ++k)
                    {
                        VF_CHECK(c, p.bin()[k] < bins, "C17:vegas-bin", "random number " << vf::show(u) << ": bin index " << p.bin()[k] << " of " << bins);
                        VF_CHECK(c, p.point()[k] >= T(0) && p.point()[k] <= T(1), "C17:vegas-closed", "random number " << vf::show(u) << ": coordinate " << vf::show(p.point()[k]));
                        VF_CHECK(c, pdf.bin_left(k, p.bin()[k]) <= p.point()[k] && p.point()[k] <= pdf.bin_left(k, p.bin()[k] + 1), "C17:vegas-point-in-bin",
                            "random number " << vf::show(u) << ": point " << vf::show(p.point()[k]) << " outside bin " << p.bin()[k]);
                    }
                    VF_CHECK(c, std::isfinite(p.weight()) && p.weight() >= T(0), "C17:vegas-weight", "random number " << vf::show(u) << ": weight " << vf::show(p.weight()));
                    ++c.sub;
                }
            }
            has_extreme = true;
        }
        c.nontrivial = has_extreme && calls > 0;
    }
    else
    {
        std::size_t const channels = 1 + t.pick(6);
        vf::PwcFamily<T> fam = vf::gen_pwc<T>(t, 3, channels, 3);
        std::vector<T> w = vf::gen_weights<T>(t, channels);
        w.resize(channels, T(1));
        if (vf::mix2(0xC17, static_cast<std::uint64_t>(channels) * 131 + calls) % 5 == 0)
        {
            // weights as the adaptation hands them to the next iteration after an iteration whose squares overflowed:
            // an infinite adjustment datum, a positive minimum weight
            std::vector<T> data(channels, T(1));
            data[calls % channels] = std::numeric_limits<T>::infinity();
            w = hep::multi_channel_refine_weights(w, data, T(0.05) / T(channels), T(0.25));
            c.label("weights-refined-from-overflowed-data");
        }
        std::size_t disabled = 0;
        std::vector<std::size_t> expect_enabled;
        for (std::size_t i = 0; i != channels; ++i) { if (w[i] != T(0)) { expect_enabled.push_back(i); } else { ++disabled; } }
        std::vector<std::uint64_t> script = scripted ? gen_script<T>(t, calls * (fam.dims + 1), has_extreme) : std::vector<std::uint64_t>();
        LogMap<T> map{&fam, &log};
        // (with a distribution: through the make_ helper, as a user would)
        auto igd = hep::make_multi_channel_integrand<T>(fn, fam.dims, map, fam.map_dims, channels, hep::make_dist_params<T>(4, T(0), T(1), "c17"));
        hep::multi_channel_integrand<T, LogFn<T>, LogMap<T>, false> igp(fn, fam.dims, map, fam.map_dims, channels, params);
        iterate(igd, igp, [&](auto& ig) {
            if (scripted) { vf::script_engine e(script); hep::multi_channel_iteration(ig, calls, w, e); }
            else { std::mt19937 e(seed); hep::multi_channel_iteration(ig, calls, w, e); }
        });
        c.desc << " w=" << vf::show(w) << ' ' << fam.describe();
        VF_CHECK(c, (with_dist ? igd.function().invoked : igp.function().invoked) == calls, "C17:function-object", "the function object of the integrand that was handed to the integrator was invoked "
            << (with_dist ? igd.function().invoked : igp.function().invoked) << " times for " << calls << " calls (a copy was invoked instead)");
        VF_CHECK(c, !log.map_state_lost, "C17:map-object", "a densities request reached a map object whose last coordinates request was for another point (the map was copied in between)");
        // state machine over the log
        std::size_t pos = 0;
        bool saw_zero = false, saw_nonzero = false;
        void const* coords_addr0 = nullptr;
        void const* dens_addr0 = nullptr;
        for (std::size_t i = 0; i != calls; ++i)
        {
            VF_CHECK(c, pos < log.ev.size() && log.ev[pos].kind == COORD, "C17:coordinates-first", "call " << i << ": the map was not asked for coordinates first");
            Event<T> const& co = log.ev[pos++];
            VF_CHECK(c, co.channel < channels && w[co.channel] != T(0), "C17:disabled-channel", "call " << i << ": map asked for coordinates of channel " << co.channel
                << " whose weight is " << (co.channel < channels ? vf::show(w[co.channel]) : std::string("?")));
            VF_CHECK(c, co.enabled == expect_enabled, "C17:enabled-list", "call " << i << ": enabled channel list " << vf::show(std::vector<double>(co.enabled.begin(), co.enabled.end()))
                << " is not the ascending list of channels with non-zero weight");
            VF_CHECK(c, co.rn.size() == fam.dims, "C17:random-number-count", "call " << i << ": " << co.rn.size() << " random numbers for " << fam.dims << " dimensions");
            for (auto r : co.rn) { VF_CHECK(c, r >= T(0) && r < T(1), "C17:random-half-open", "call " << i << ": random number " << vf::show(r) << " outside [0,1)"); }
            VF_CHECK(c, co.coords_size == fam.map_dims && co.dens_size == channels, "C17:buffer-sizes", "call " << i << ": coordinate buffer " << co.coords_size
                << " (map dimensions " << fam.map_dims << "), density buffer " << co.dens_size << " (channels " << channels << ")");
            if (i == 0) { coords_addr0 = co.coords_addr; dens_addr0 = co.dens_addr; }
            VF_CHECK(c, pos < log.ev.size() && log.ev[pos].kind == FBEGIN, "C17:integrand-after-coordinates", "call " << i << ": no integrand call after the coordinates");
            Event<T> const& fb = log.ev[pos++];
            VF_CHECK(c, fb.channel == co.channel, "C17:point-channel", "call " << i << ": point.channel() " << fb.channel << " but the map was asked for " << co.channel);
            VF_CHECK(c, fb.coords_addr == co.coords_addr && fb.coords_in == co.coords_out, "C17:point-coordinates", "call " << i
                << ": point.coordinates() is not the buffer the map filled");
            VF_CHECK(c, vf::same_bits(fb.point, co.rn), "C17:point-random-numbers", "call " << i << ": point.point() differs from the random numbers given to the map");
            // optional density call, nested in the integrand or after it
            Event<T> const* de = nullptr;
            if (pos < log.ev.size() && log.ev[pos].kind == DENS) { de = &log.ev[pos++]; }
            VF_CHECK(c, pos < log.ev.size() && log.ev[pos].kind == FEND, "C17:order", "call " << i << ": unexpected event inside the integrand call");
            Event<T> const& fe = log.ev[pos++];
            if (!de && pos < log.ev.size() && log.ev[pos].kind == DENS) { de = &log.ev[pos++]; }
            bool const need = (fe.returned != T(0)) || fe.asked_weight || fe.used_projector; // NaN != 0 is true
            VF_CHECK(c, need == (de != nullptr), need ? "C17:densities-missing" : "C17:densities-not-lazy", "call " << i << ": integrand returned " << vf::show(fe.returned)
                << (fe.asked_weight ? ", asked for the weight" : "") << (fe.used_projector ? ", used the projector" : "") << " but the map was "
                << (de ? "" : "not ") << "asked for densities");
            (fe.returned == T(0)) ? saw_zero = true : saw_nonzero = true;
            if (de)
            {
                VF_CHECK(c, de->channel == co.channel, "C17:densities-channel", "call " << i << ": densities asked for channel " << de->channel << ", coordinates for " << co.channel);
                VF_CHECK(c, vf::same_bits(de->rn, co.rn), "C17:densities-random-numbers", "call " << i << ": densities call got different random numbers");
                VF_CHECK(c, de->enabled == expect_enabled, "C17:enabled-list", "call " << i << ": enabled list of the densities call differs");
                VF_CHECK(c, de->coords_addr == co.coords_addr && de->dens_addr == co.dens_addr && de->rn_addr == co.rn_addr, "C17:buffer-identity", "call " << i
                    << ": the densities call did not get the same buffer objects as the coordinates call");
                VF_CHECK(c, de->coords_in == co.coords_out && de->dens_in == co.dens_out, "C17:buffer-contents", "call " << i
                    << ": the buffers were modified between the coordinates call and the densities call");
                VF_CHECK(c, de->coords_size == fam.map_dims && de->dens_size == channels, "C17:buffer-sizes", "call " << i << ": buffer sizes of the densities call");
            }
            // a second densities request for the same point must not happen (the weight is cached)
            VF_CHECK(c, !(pos < log.ev.size() && log.ev[pos].kind == DENS), "C17:densities-twice", "call " << i << ": densities requested twice");
            VF_CHECK(c, co.coords_addr == coords_addr0 && co.dens_addr == dens_addr0, "C17:buffer-identity", "call " << i << ": buffers change between calls");
            ++c.sub;
        }
        VF_CHECK(c, pos == log.ev.size(), "C17:extra-events", (log.ev.size() - pos) << " events after the last call");
        if (disabled) { c.label("disabled-channel"); }
        c.nontrivial = (disabled >= 1 && saw_zero && saw_nonzero) || (has_extreme && calls > 0);
    }
    if (has_extreme) { c.label("extreme-canonical-number"); }
    c.label(integrator == 0 ? "PLAIN" : integrator == 1 ? "VEGAS" : "MULTI");
}

void run(vf::Ctx& c)
{
    vf::with_type(c.t, [&](auto tag) { run_t<decltype(tag)>(c); });
}

} // namespace

vf::Property const vf::property = {"C17", "", run, nullptr, nullptr};
