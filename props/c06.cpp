// C06 - non-finite evaluations are counted but never contaminate results or adaptation.
// Domain: integrator x numeric type x 2..5 adaptive iterations x a poison set: subset of the call
// indices (empty .. all), each with a kind (NaN, +inf, -inf) and a source: the integrand's return
// value, the value handed to a 1-d / 2-d distribution (poisoned per datum, independently), or - in
// multi-channel - the weight (jacobian NaN / inf, all densities zero).
// Oracle (metamorphic, paired run): the same run in which exactly the poisoned data are replaced by
// zero (sane map, no projector call for a poisoned datum) must agree bit for bit in every sum, bin,
// adjustment datum, grid / weight vector and the generator; non_zero_calls differ by exactly the
// number of poisoned return values / weights; every reported number is finite.
#include "hep/mc.hpp"

#include "../lib/gen.hpp"
#include "../lib/pwc.hpp"
#include "../lib/harness.hpp"

#include <random>

namespace
{

enum Src : unsigned char { NONE = 0, RET = 1, WEIGHT = 2 };

template <typename T>
struct Plan
{
    std::vector<unsigned char> ret_kind;            // per call: 0 none, 1 NaN, 2 +inf, 3 -inf  (return value)
    std::vector<unsigned char> weight_kind;         // per call (multi-channel): 0 none, 1 NaN jacobian, 2 inf jacobian, 3 zero densities
    std::vector<std::array<unsigned char, 2>> dist_kind; // per call, per distribution
    std::size_t ndist = 0;
    bool two_d_second = false;
    int family = 0;
    std::size_t dims = 1;
    bool zeroed = false;                            // paired run
    std::size_t call = 0;                           // advanced by the integrand
    std::size_t map_call = 0;                       // advanced by the map (coordinates call)
    bool disabled_density_poisoned = false, any_disabled_density = false;
    std::vector<unsigned char> counted;             // set by the poisoned run: this evaluation is non-zero only there

    static T poison(unsigned kind)
    {
        switch (kind)
        {
        case 1: return std::numeric_limits<T>::quiet_NaN();
        case 2: return std::numeric_limits<T>::infinity();
        default: return -std::numeric_limits<T>::infinity();
        }
    }
};

template <typename T>
struct Fn
{
    Plan<T>* plan;

    static std::vector<T> const& coords(hep::multi_channel_point<T> const& p) { return p.coordinates(); }
    static std::vector<T> const& coords(hep::mc_point<T> const& p) { return p.point(); }

    T base(std::vector<T> const& x) const
    {
        T const x0 = x[0], xl = x[plan->dims - 1];
        switch (plan->family)
        {
        case 0: return T(1) + x0 * xl;
        case 1: return x0 - T(0.4);                                   // sign changing
        case 2: return (x0 < T(0.25)) ? T(0) : T(3) * x0;             // zero region
        default: return T(1) / (T(0.05) + (x0 - T(0.6)) * (x0 - T(0.6)));
        }
    }

    template <typename P>
    T eval(P const& p, hep::projector<T>* proj) const
    {
        std::size_t const i = plan->call++;
        std::vector<T> const& x = coords(p);
        T const f = base(x);
        bool const weight_poisoned = i < plan->weight_kind.size() && plan->weight_kind[i] != 0;
        if (proj)
        {
            for (std::size_t d = 0; d != plan->ndist; ++d)
            {
                unsigned const k = i < plan->dist_kind.size() ? plan->dist_kind[i][d] : 0;
                if (plan->zeroed && (k != 0 || weight_poisoned)) { continue; } // the poisoned datum is replaced by nothing
                T const v = (k != 0) ? Plan<T>::poison(k) : f;
                if (d == 1 && plan->two_d_second) { proj->add(d, x[0], x[plan->dims - 1], v); }
                else { proj->add(d, x[d % plan->dims], v); }
            }
        }
        unsigned const rk = i < plan->ret_kind.size() ? plan->ret_kind[i] : 0;
        if (!plan->zeroed && i < plan->counted.size()) { plan->counted[i] = (rk != 0 || (weight_poisoned && f != T(0))) ? 1 : 0; }
        if (rk != 0) { return plan->zeroed ? T(0) : Plan<T>::poison(rk); }
        if (weight_poisoned && plan->zeroed) { return T(0); }
        return f;
    }
    template <typename P> T operator()(P const& p) const { return eval(p, nullptr); }
    template <typename P> T operator()(P const& p, hep::projector<T>& proj) const { return eval(p, &proj); }
};

// PWC map whose jacobian / densities are poisoned at planned calls (sane in the paired run)
template <typename T>
struct PoisonMap
{
    vf::PwcFamily<T> const* fam;
    Plan<T>* plan;
    std::size_t* current; // index of the call being processed (set in the coordinates call)

    T operator()(std::size_t channel, std::vector<T> const& rn, std::vector<T>& coords, std::vector<std::size_t> const& enabled,
        std::vector<T>& dens, hep::multi_channel_map action) const
    {
        vf::PwcMap<T> inner{fam, nullptr, nullptr};
        if (action == hep::multi_channel_map::calculate_coordinates) { *current = plan->map_call++; }
        T const j = inner(channel, rn, coords, enabled, dens, action);
        unsigned const k = (*current < plan->weight_kind.size()) ? plan->weight_kind[*current] : 0;
        if (!plan->zeroed && plan->any_disabled_density && (action == hep::multi_channel_map::calculate_densities || fam->dens_early))
        {
            // this map fills every channel at every call (the vector is reused by the library)
            for (std::size_t ch = 0; ch != dens.size(); ++ch) { if (std::find(enabled.begin(), enabled.end(), ch) == enabled.end()) { dens[ch] = T(0.5); } }
        }
        if (k == 0 || plan->zeroed) { return j; }
        if (action == hep::multi_channel_map::calculate_densities || fam->dens_early)
        {
            if (k == 3) { for (auto ch : enabled) { dens[ch] = T(0); } }
            if (k == 4)
            {
                // a map that fills every channel, whether enabled or not: the density of a disabled channel is not finite
                // (0 * NaN in the total density); without a disabled channel this is kind 3
                bool any = false;
                for (std::size_t ch = 0; ch != dens.size(); ++ch)
                {
                    if (std::find(enabled.begin(), enabled.end(), ch) == enabled.end())
                    {
                        dens[ch] = (ch % 2) ? std::numeric_limits<T>::infinity() : std::numeric_limits<T>::quiet_NaN();
                        any = true;
                        plan->disabled_density_poisoned = true;
                    }
                }
                if (!any) { for (auto ch : enabled) { dens[ch] = T(0); } }
            }
        }
        if (k == 1) { return std::numeric_limits<T>::quiet_NaN(); }
        if (k == 2) { return std::numeric_limits<T>::infinity(); }
        return j;
    }
};

template <typename T>
bool same_mc(hep::mc_result<T> const& a, hep::mc_result<T> const& b, bool with_nz)
{
    return a.calls() == b.calls() && a.finite_calls() == b.finite_calls() && (!with_nz || a.non_zero_calls() == b.non_zero_calls())
        && vf::same_bits(a.sum(), b.sum()) && vf::same_bits(a.sum_of_squares(), b.sum_of_squares());
}

template <typename T>
void finite_mc(vf::Ctx& c, hep::mc_result<T> const& r, std::size_t k, char const* what)
{
    VF_CHECK(c, std::isfinite(r.sum()) && std::isfinite(r.sum_of_squares()), "C06:non-finite-sum", "iteration " << k << ' ' << what << ": sum "
        << vf::show(r.sum()) << " sum of squares " << vf::show(r.sum_of_squares()));
    if (r.calls() >= 2)
    {
        VF_CHECK(c, std::isfinite(r.value()) && std::isfinite(r.variance()), "C06:non-finite-estimate", "iteration " << k << ' ' << what << ": value "
            << vf::show(r.value()) << " variance " << vf::show(r.variance()));
    }
}

template <typename T, typename Res>
void compare_plain(vf::Ctx& c, Res const& p, Res const& z, std::size_t k, std::size_t poisoned_here)
{
    finite_mc<T>(c, p, k, "result");
    VF_CHECK(c, same_mc<T>(p, z, false), "C06:sums-differ", "iteration " << k << ": poisoned run sum/sumsq/finite = " << vf::show(p.sum()) << '/'
        << vf::show(p.sum_of_squares()) << '/' << p.finite_calls() << ", zeroed run " << vf::show(z.sum()) << '/' << vf::show(z.sum_of_squares()) << '/' << z.finite_calls());
    VF_CHECK(c, p.non_zero_calls() == z.non_zero_calls() + poisoned_here, "C06:non-zero-calls", "iteration " << k << ": non_zero_calls " << p.non_zero_calls()
        << " in the poisoned run, " << z.non_zero_calls() << " in the zeroed run, " << poisoned_here << " poisoned evaluations");
    VF_CHECK(c, p.distributions().size() == z.distributions().size(), "C06:dist-count", "distribution count");
    for (std::size_t d = 0; d != p.distributions().size(); ++d)
    {
        auto const& bp = p.distributions()[d].results();
        auto const& bz = z.distributions()[d].results();
        for (std::size_t b = 0; b != bp.size(); ++b)
        {
            finite_mc<T>(c, bp[b], k, "bin");
            VF_CHECK(c, same_mc<T>(bp[b], bz[b], true), "C06:bin-differs", "iteration " << k << " distribution " << d << " bin " << b << ": poisoned run "
                << vf::show(bp[b].sum()) << '/' << vf::show(bp[b].sum_of_squares()) << '/' << bp[b].finite_calls() << '/' << bp[b].non_zero_calls()
                << ", zeroed run " << vf::show(bz[b].sum()) << '/' << vf::show(bz[b].sum_of_squares()) << '/' << bz[b].finite_calls() << '/' << bz[b].non_zero_calls());
        }
    }
}

template <typename T>
void check_vec_finite(vf::Ctx& c, std::vector<T> const& v, std::size_t k, char const* what)
{
    for (auto x : v) { VF_CHECK(c, std::isfinite(x), "C06:non-finite-adaptation", "iteration " << k << ": " << what << " contains " << vf::show(x)); }
}

template <typename T>
void run_t(vf::Ctx& c)
{
    vf::Tape& t = c.t;
    int const integrator = static_cast<int>(t.pick(3));
    std::size_t const iters = 2 + t.pick(4);
    std::vector<std::size_t> calls;
    std::size_t total = 0;
    for (std::size_t k = 0; k != iters; ++k) { calls.push_back(t.pick(4) == 0 ? 10 + t.range(0, 1990) : 10 + t.range(0, 200)); total += calls.back(); }
    Plan<T> plan;
    plan.family = static_cast<int>(t.pick(4));
    plan.ndist = t.pick(3);
    plan.two_d_second = plan.ndist == 2;
    std::uint32_t const seed = 1 + static_cast<std::uint32_t>(t.next() % 1000000u);

    // poison set
    plan.ret_kind.assign(total, 0);
    plan.weight_kind.assign(total, 0);
    plan.counted.assign(total, 0);
    plan.dist_kind.assign(total, std::array<unsigned char, 2>{{0, 0}});
    std::size_t const shape = t.pick(7);
    std::uint64_t const ps = t.stream_seed();
    unsigned const fixed_kind = static_cast<unsigned>(t.pick(4)); // 0: mixed
    bool const allow_ret = t.pick(4) != 0;
    bool const allow_dist = plan.ndist > 0 && t.pick(3) != 0;
    bool const allow_weight = integrator == 2 && t.pick(3) != 0;
    auto poison_call = [&](std::size_t i) {
        auto kind = [&](std::uint64_t salt) -> unsigned char { return static_cast<unsigned char>(fixed_kind ? fixed_kind : 1 + vf::mix2(ps, i * 8 + salt) % 3); };
        std::uint64_t const which = vf::mix2(ps ^ 0x55, i);
        bool any = false;
        if (allow_ret && (which & 1)) { plan.ret_kind[i] = kind(1); any = true; }
        if (allow_dist && (which & 2)) { plan.dist_kind[i][(which >> 8) % plan.ndist] = kind(2); any = true; }
        if (allow_weight && (which & 4)) { plan.weight_kind[i] = kind(3); any = true; }
        if (!any)
        {
            if (allow_ret) { plan.ret_kind[i] = kind(1); }
            else if (allow_weight) { plan.weight_kind[i] = kind(3); }
            else if (allow_dist) { plan.dist_kind[i][0] = kind(2); }
        }
        if (plan.weight_kind[i] == 3 && (vf::mix2(ps ^ 0x77, i) & 1)) { plan.weight_kind[i] = 4; plan.any_disabled_density = true; }
    };
    switch (shape)
    {
    case 0: break;                                                        // empty
    case 1: poison_call(0); break;                                        // first call
    case 2: poison_call(total - 1); break;                                // last call
    case 3: poison_call(t.range(0, total - 1)); break;                    // one in the middle
    case 4: for (std::size_t i = 0; i != total; ++i) { poison_call(i); } break; // all
    case 5: for (std::size_t i = 0; i != total; ++i) { if (vf::stream_unit(ps, i) < 0.02) { poison_call(i); } } break;
    default: { double const p = t.unit(); for (std::size_t i = 0; i != total; ++i) { if (vf::stream_unit(ps, i) < p) { poison_call(i); } } break; }
    }
    std::size_t n_ret = 0, n_dist = 0, n_weight = 0;
    for (std::size_t i = 0; i != total; ++i)
    {
        if (plan.weight_kind[i] != 0 && plan.ret_kind[i] != 0) { plan.weight_kind[i] = 0; } // one source per evaluation for the counting rule
        n_ret += plan.ret_kind[i] != 0; n_weight += plan.weight_kind[i] != 0; n_dist += (plan.dist_kind[i][0] != 0) + (plan.dist_kind[i][1] != 0);
    }
    c.desc << vf::type_name<T>::get() << (integrator == 0 ? " PLAIN" : integrator == 1 ? " VEGAS" : " MULTI") << " calls=" << vf::show(calls) << " family=" << plan.family
           << " dists=" << plan.ndist << " seed=" << seed << " poison{shape=" << shape << ",kind=" << fixed_kind << ",return=" << n_ret << ",datum=" << n_dist
           << ",weight=" << n_weight << ",stream=" << (ps % 100000) << "}";

    std::vector<hep::distribution_parameters<T>> params;
    if (plan.ndist >= 1) { params.emplace_back(5, T(0), T(1), "one"); }
    if (plan.ndist >= 2) { params.emplace_back(3, 2, T(0), T(1), T(0), T(1), "two"); }

    auto silent = [](auto const&) { return true; };
    bool mixed_iteration = false;

    auto finish = [&](auto const& P, auto const& Z) {
        VF_CHECK(c, P.results().size() == iters && Z.results().size() == iters, "C06:iterations", "performed " << P.results().size() << " / " << Z.results().size());
        std::size_t b = 0;
        for (std::size_t k = 0; k != iters; ++k)
        {
            // evaluations that are non-zero only in the poisoned run: a poisoned return value, or a poisoned weight
            // on a non-zero value
            std::size_t here = 0;
            for (std::size_t i = b; i != b + calls[k]; ++i) { here += plan.counted[i]; }
            b += calls[k];
            compare_plain<T>(c, P.results()[k], Z.results()[k], k, here);
            if (here > 0 && Z.results()[k].non_zero_calls() > 0) { mixed_iteration = true; }
            ++c.sub;
        }
        VF_CHECK(c, P.generator() == Z.generator(), "C06:generator", "the generators of the two runs differ");
        // the combination of the results so far, which the built-in callback reports and bases its stop decision on,
        // is the same number in both runs (NaN in both counts as the same) after every iteration
        auto same_number = [](T a, T b) { return (std::isnan(a) && std::isnan(b)) || vf::same_bits(a, b); };
        for (std::size_t j = 1; j <= iters; ++j)
        {
            auto const cp = hep::accumulate<hep::weighted_with_variance>(P.results().begin(), P.results().begin() + j);
            auto const cz = hep::accumulate<hep::weighted_with_variance>(Z.results().begin(), Z.results().begin() + j);
            VF_CHECK(c, same_number(cp.value(), cz.value()) && same_number(cp.error(), cz.error()), "C06:combination-differs", "after " << j << " iterations the variance-weighted "
                << "combination is " << vf::show(cp.value()) << " +- " << vf::show(cp.error()) << " in the poisoned run and " << vf::show(cz.value()) << " +- " << vf::show(cz.error())
                << " in the run where the same points returned zero");
            auto const ep = hep::accumulate<hep::weighted_equally>(P.results().begin(), P.results().begin() + j);
            auto const ez = hep::accumulate<hep::weighted_equally>(Z.results().begin(), Z.results().begin() + j);
            VF_CHECK(c, same_number(ep.value(), ez.value()) && same_number(ep.error(), ez.error()), "C06:combination-differs", "after " << j << " iterations the equally weighted "
                << "combination differs between the two runs");
            // counters of the combinations: calls and finite evaluations agree, the non-zero ones differ by the poisoned evaluations
            std::size_t poisoned_so_far = 0, calls_so_far = 0;
            for (std::size_t k = 0; k != j; ++k) { calls_so_far += calls[k]; }
            for (std::size_t i = 0; i != calls_so_far; ++i) { poisoned_so_far += plan.counted[i]; }
            for (auto const* pair : {&cp, &ep})
            {
                auto const& other = (pair == &cp) ? cz : ez;
                VF_CHECK(c, pair->calls() == calls_so_far && pair->calls() == other.calls() && pair->finite_calls() == other.finite_calls() && pair->non_zero_calls() == other.non_zero_calls() + poisoned_so_far,
                    "C06:combination-counters", "after " << j << " iterations the combination reports calls / non-zero / finite = " << pair->calls() << " / " << pair->non_zero_calls() << " / "
                    << pair->finite_calls() << " in the poisoned run and " << other.calls() << " / " << other.non_zero_calls() << " / " << other.finite_calls() << " in the zeroed run ("
                    << poisoned_so_far << " poisoned evaluations)");
            }
            // chi^2 / dof, which the verbose callback prints
            if (j >= 2)
            {
                T const xp = hep::chi_square_dof<hep::weighted_with_variance>(P.results().begin(), P.results().begin() + j);
                T const xz = hep::chi_square_dof<hep::weighted_with_variance>(Z.results().begin(), Z.results().begin() + j);
                VF_CHECK(c, same_number(xp, xz), "C06:chi-square-differs", "after " << j << " iterations chi^2/dof is " << vf::show(xp) << " in the poisoned run and " << vf::show(xz)
                    << " in the run where the same points returned zero");
            }
            if (P.results()[j - 1].non_zero_calls() > 0 && P.results()[j - 1].finite_calls() == 0) { c.label("iteration-with-only-non-finite-values"); }
        }
    };

    if (integrator == 0)
    {
        plan.dims = 1 + t.pick(3);
        Plan<T> pz = plan; pz.zeroed = true;
        Fn<T> fp{&plan}, fz{&pz};
        auto chk = hep::make_plain_chkpt<T>(std::mt19937(seed));
        if (plan.ndist)
        {
            hep::integrand<T, Fn<T>, true> ip(fp, plan.dims, params), iz(fz, plan.dims, params);
            finish(hep::plain(ip, calls, chk, silent), hep::plain(iz, calls, chk, silent));
        }
        else
        {
            hep::integrand<T, Fn<T>, false> ip(fp, plan.dims, params), iz(fz, plan.dims, params);
            finish(hep::plain(ip, calls, chk, silent), hep::plain(iz, calls, chk, silent));
        }
    }
    else if (integrator == 1)
    {
        plan.dims = 1 + t.pick(3);
        std::size_t const bins = 2 + t.pick(20);
        Plan<T> pz = plan; pz.zeroed = true;
        Fn<T> fp{&plan}, fz{&pz};
        auto chk = hep::make_vegas_chkpt<T>(bins, T(1.5), std::mt19937(seed));
        c.desc << " d=" << plan.dims << " bins=" << bins;
        auto after = [&](auto const& P, auto const& Z) {
            finish(P, Z);
            for (std::size_t k = 0; k != iters; ++k)
            {
                auto const& rp = P.results()[k];
                auto const& rz = Z.results()[k];
                check_vec_finite<T>(c, rp.adjustment_data(), k, "VEGAS adjustment data");
                VF_CHECK(c, vf::same_bits(rp.adjustment_data(), rz.adjustment_data()), "C06:vegas-data-differ", "iteration " << k << ": adjustment data differ: "
                    << vf::show(rp.adjustment_data(), 16) << " vs " << vf::show(rz.adjustment_data(), 16));
                for (std::size_t d = 0; d != plan.dims; ++d)
                {
                    for (std::size_t b = 0; b <= bins; ++b)
                    {
                        VF_CHECK(c, std::isfinite(rp.pdf().bin_left(d, b)), "C06:non-finite-adaptation", "iteration " << k << ": grid boundary " << vf::show(rp.pdf().bin_left(d, b)));
                        VF_CHECK(c, vf::same_bits(rp.pdf().bin_left(d, b), rz.pdf().bin_left(d, b)), "C06:grid-differs", "iteration " << k << ": the grids of the two runs differ in dimension "
                            << d << " boundary " << b << ": " << vf::show(rp.pdf().bin_left(d, b)) << " vs " << vf::show(rz.pdf().bin_left(d, b)));
                    }
                }
            }
            auto const np = P.pdf(), nz = Z.pdf();
            for (std::size_t d = 0; d != plan.dims; ++d) { for (std::size_t b = 0; b <= bins; ++b) {
                VF_CHECK(c, std::isfinite(np.bin_left(d, b)) && vf::same_bits(np.bin_left(d, b), nz.bin_left(d, b)), "C06:grid-differs", "the next grids differ / are not finite"); } }
        };
        if (plan.ndist)
        {
            hep::integrand<T, Fn<T>, true> ip(fp, plan.dims, params), iz(fz, plan.dims, params);
            after(hep::vegas(ip, calls, chk, silent), hep::vegas(iz, calls, chk, silent));
        }
        else
        {
            hep::integrand<T, Fn<T>, false> ip(fp, plan.dims, params), iz(fz, plan.dims, params);
            after(hep::vegas(ip, calls, chk, silent), hep::vegas(iz, calls, chk, silent));
        }
    }
    else
    {
        std::size_t const channels = 1 + t.pick(4);
        vf::PwcFamily<T> fam = vf::gen_pwc<T>(t, 2, channels, 3);
        plan.dims = fam.dims;
        std::vector<T> w = vf::gen_weights<T>(t, channels);
        w.resize(channels, T(1));
        Plan<T> pz = plan; pz.zeroed = true;
        Fn<T> fp{&plan}, fz{&pz};
        std::size_t curp = 0, curz = 0;
        PoisonMap<T> mp{&fam, &plan, &curp}, mz{&fam, &pz, &curz};
        auto chk = hep::make_multi_channel_chkpt<T>(w, T(0), T(0.25), std::mt19937(seed));
        c.desc << ' ' << fam.describe() << " w=" << vf::show(w);
        auto after = [&](auto const& P, auto const& Z) {
            finish(P, Z);
            for (std::size_t k = 0; k != iters; ++k)
            {
                auto const& rp = P.results()[k];
                auto const& rz = Z.results()[k];
                // slots of disabled channels are documented as ignored
                for (std::size_t j = 0; j != channels; ++j)
                {
                    if (rp.channel_weights()[j] == T(0)) { continue; }
                    VF_CHECK(c, std::isfinite(rp.adjustment_data()[j]), "C06:non-finite-adaptation", "iteration " << k << ": channel datum " << vf::show(rp.adjustment_data()[j]));
                    VF_CHECK(c, vf::same_bits(rp.adjustment_data()[j], rz.adjustment_data()[j]), "C06:channel-data-differ", "iteration " << k << ": adjustment datum of channel " << j
                        << " " << vf::show(rp.adjustment_data()[j]) << " vs " << vf::show(rz.adjustment_data()[j]));
                }
                check_vec_finite<T>(c, rp.channel_weights(), k, "channel weights");
                VF_CHECK(c, vf::same_bits(rp.channel_weights(), rz.channel_weights()), "C06:weights-differ", "iteration " << k << ": channel weights differ: "
                    << vf::show(rp.channel_weights()) << " vs " << vf::show(rz.channel_weights()));
            }
            check_vec_finite<T>(c, P.channel_weights(), iters, "next channel weights");
            VF_CHECK(c, vf::same_bits(P.channel_weights(), Z.channel_weights()), "C06:weights-differ", "the next channel weights differ");
        };
        if (plan.ndist)
        {
            hep::multi_channel_integrand<T, Fn<T>, PoisonMap<T>, true> ip(fp, fam.dims, mp, fam.map_dims, channels, params), iz(fz, fam.dims, mz, fam.map_dims, channels, params);
            after(hep::multi_channel(ip, calls, chk, silent), hep::multi_channel(iz, calls, chk, silent));
        }
        else
        {
            hep::multi_channel_integrand<T, Fn<T>, PoisonMap<T>, false> ip(fp, fam.dims, mp, fam.map_dims, channels, params), iz(fz, fam.dims, mz, fam.map_dims, channels, params);
            after(hep::multi_channel(ip, calls, chk, silent), hep::multi_channel(iz, calls, chk, silent));
        }
    }
    if (n_ret) { c.label("poisoned-return-value"); }
    if (n_dist) { c.label("poisoned-distribution-datum"); }
    if (n_weight) { c.label("poisoned-weight"); }
    if (plan.disabled_density_poisoned) { c.label("non-finite-density-of-disabled-channel"); }
    if (shape == 4) { c.label("all-poisoned"); }
    c.label(integrator == 0 ? "PLAIN" : integrator == 1 ? "VEGAS" : "MULTI");
    c.nontrivial = (integrator != 0 && mixed_iteration) || n_dist > 0;
}

void run(vf::Ctx& c)
{
    vf::with_type(c.t, [&](auto tag) { run_t<decltype(tag)>(c); });
}

} // namespace

vf::Property const vf::property = {"C06", "", run, nullptr, nullptr};
