// C18 - a killed run always leaves a complete checkpoint file.
// Fault injection: this binary defines the file-system entry points libstdc++'s basic_filebuf uses
// (fopen / fopen64 / open* / write / writev / fclose / rename / unlink / remove / ftruncate) itself,
// so every call that touches the checkpoint directory passes through it. A counting pass records
// the sequence of tracked calls of an undisturbed run; then EVERY position of that sequence is a crash
// point (a forked child is SIGKILLed on entry), writes additionally after byte prefixes, and a
// short write (kernel accepts fewer bytes, no crash) is a further fault kind.
// Oracle: after each crash the file is absent or byte-identical to the complete checkpoint of the
// previous or of the current iteration, and resuming from it reproduces the undisturbed final text.
// Built without sanitizers (their own interceptors would sit on the same symbols).
#ifndef _GNU_SOURCE
#define _GNU_SOURCE
#endif
#include "../lib/runners.hpp"
#include "../lib/harness.hpp"

#include <dirent.h>
#include <dlfcn.h>
#include <fcntl.h>
#include <signal.h>
#include <stdarg.h>
#include <sys/stat.h>
#include <sys/uio.h>
#include <sys/wait.h>
#include <unistd.h>

#include <cerrno>
#include <fstream>
#include <functional>
#include <iostream>

namespace ip
{

enum Kind { OPEN, WRITE, CLOSE, RENAME, UNLINK, TRUNCATE };

struct Call
{
    Kind kind;
    std::size_t bytes;
    int iteration;
};

bool active = false;          // tracking on
bool counting = false;        // record calls
std::string base;             // directory prefix of tracked paths
std::vector<Call>* recorded = nullptr;
long crash_at = -1;           // position at which to die (-1: never)
long prefix = -1;             // for writes: bytes to let through before dying (-1: die on entry)
long short_at = -1;           // position of a short write (non fatal)
long fail_at = -1;            // position of a write that fails with an error (non fatal)
int fail_mode = 0;            // 0: that write only (EIO); 1: it and every later write of the same callback (ENOSPC);
                              // 2: half of it goes through, then as 1 (file size limit)
int fail_iteration = -1;      // iteration in which the error struck (-1: not yet)
bool kill_after_callback = false; // die when the callback in which the error struck returns
bool deny_create = false;         // opening a tracked path that does not exist yet fails (no permission to create files in the directory)
long position = 0;            // tracked calls so far
int iteration = 0;            // set by the workload's callback wrapper
bool fds[4096];

bool tracked_path(char const* p) { return active && p && !base.empty() && std::strncmp(p, base.c_str(), base.size()) == 0; }
bool tracked_fd(int fd) { return active && fd >= 0 && fd < 4096 && fds[fd]; }

// returns the number of bytes a write may put through before the process dies; -2: no crash here
long on_call(Kind k, std::size_t bytes)
{
    long const pos = position++;
    if (counting && recorded) { recorded->push_back({k, bytes, iteration}); }
    if (pos == crash_at)
    {
        if (k == WRITE && prefix >= 0) { return prefix; }
        ::raise(SIGKILL);
    }
    return -2;
}

// write errors: returns -2 when this write is not affected, otherwise the number of bytes to let through before
// reporting the error (0: none; the call then returns -1 with errno set, or the short count if it is positive)
long on_write_error(std::size_t n)
{
    if (fail_at < 0) { return -2; }
    if (position == fail_at)
    {
        fail_iteration = iteration;
        return fail_mode == 2 ? static_cast<long>(n / 2) : 0;
    }
    if (fail_mode != 0 && fail_iteration >= 0 && fail_iteration == iteration) { return 0; }
    return -2;
}

template <typename F>
F next(char const* name)
{
    return reinterpret_cast<F>(::dlsym(RTLD_NEXT, name));
}

} // namespace ip

extern "C"
{

FILE* fopen64(char const* path, char const* mode)
{
    static auto real = ip::next<FILE* (*)(char const*, char const*)>("fopen64");
    if (ip::tracked_path(path)) { ip::on_call(ip::OPEN, 0); }
    if (ip::tracked_path(path) && ip::deny_create && ::access(path, F_OK) != 0) { errno = EACCES; return nullptr; }
    FILE* f = real(path, mode);
    if (f && ip::tracked_path(path)) { int const fd = ::fileno(f); if (fd >= 0 && fd < 4096) { ip::fds[fd] = true; } }
    return f;
}

FILE* fopen(char const* path, char const* mode)
{
    static auto real = ip::next<FILE* (*)(char const*, char const*)>("fopen");
    if (ip::tracked_path(path)) { ip::on_call(ip::OPEN, 0); }
    if (ip::tracked_path(path) && ip::deny_create && ::access(path, F_OK) != 0) { errno = EACCES; return nullptr; }
    FILE* f = real(path, mode);
    if (f && ip::tracked_path(path)) { int const fd = ::fileno(f); if (fd >= 0 && fd < 4096) { ip::fds[fd] = true; } }
    return f;
}

static int open_common(char const* name, char const* path, int flags, mode_t mode, int dirfd, bool at)
{
    bool const tr = ip::tracked_path(path);
    if (tr) { ip::on_call(ip::OPEN, 0); }
    if (tr && ip::deny_create && (flags & O_CREAT) && ::access(path, F_OK) != 0) { errno = EACCES; return -1; }
    int fd;
    if (at) { static auto real = ip::next<int (*)(int, char const*, int, ...)>("openat"); fd = real(dirfd, path, flags, mode); }
    else { auto real = ip::next<int (*)(char const*, int, ...)>(name); fd = real(path, flags, mode); }
    if (tr && fd >= 0 && fd < 4096) { ip::fds[fd] = true; }
    return fd;
}

int open(char const* path, int flags, ...)
{
    va_list ap; va_start(ap, flags); mode_t const mode = (flags & (O_CREAT | O_TMPFILE)) ? va_arg(ap, mode_t) : 0; va_end(ap);
    return open_common("open", path, flags, mode, 0, false);
}

int open64(char const* path, int flags, ...)
{
    va_list ap; va_start(ap, flags); mode_t const mode = (flags & (O_CREAT | O_TMPFILE)) ? va_arg(ap, mode_t) : 0; va_end(ap);
    return open_common("open64", path, flags, mode, 0, false);
}

int openat(int dirfd, char const* path, int flags, ...)
{
    va_list ap; va_start(ap, flags); mode_t const mode = (flags & (O_CREAT | O_TMPFILE)) ? va_arg(ap, mode_t) : 0; va_end(ap);
    return open_common("openat", path, flags, mode, dirfd, true);
}

ssize_t write(int fd, void const* buf, size_t n)
{
    static auto real = ip::next<ssize_t (*)(int, void const*, size_t)>("write");
    if (!ip::tracked_fd(fd)) { return real(fd, buf, n); }
    bool const shorten = ip::position == ip::short_at && n > 1;
    long const err = ip::on_write_error(n);
    long const through = ip::on_call(ip::WRITE, n);
    if (through >= 0)
    {
        size_t const k = static_cast<size_t>(through) < n ? static_cast<size_t>(through) : n;
        if (k) { (void) real(fd, buf, k); }
        ::raise(SIGKILL);
    }
    if (err > 0) { return real(fd, buf, static_cast<size_t>(err)); }
    if (err == 0) { errno = ip::fail_mode == 0 ? EIO : ENOSPC; return -1; }
    if (shorten) { return real(fd, buf, n / 2); }
    return real(fd, buf, n);
}

ssize_t writev(int fd, struct iovec const* iov, int cnt)
{
    static auto real = ip::next<ssize_t (*)(int, struct iovec const*, int)>("writev");
    static auto realw = ip::next<ssize_t (*)(int, void const*, size_t)>("write");
    if (!ip::tracked_fd(fd)) { return real(fd, iov, cnt); }
    size_t total = 0;
    for (int i = 0; i != cnt; ++i) { total += iov[i].iov_len; }
    bool shorten = ip::position == ip::short_at && total > 1;
    long const err = ip::on_write_error(total);
    long const through = ip::on_call(ip::WRITE, total);
    if (through < 0 && err == 0) { errno = ip::fail_mode == 0 ? EIO : ENOSPC; return -1; }
    if (through < 0 && err > 0) { shorten = true; }
    if (through >= 0 || shorten)
    {
        size_t left = through >= 0 ? static_cast<size_t>(through) : total / 2;
        size_t done = 0;
        for (int i = 0; i != cnt && left; ++i)
        {
            size_t const k = iov[i].iov_len < left ? iov[i].iov_len : left;
            if (k) { (void) realw(fd, iov[i].iov_base, k); }
            left -= k;
            done += k;
        }
        if (through >= 0) { ::raise(SIGKILL); }
        return static_cast<ssize_t>(done);
    }
    return real(fd, iov, cnt);
}

int fclose(FILE* f)
{
    static auto real = ip::next<int (*)(FILE*)>("fclose");
    int const fd = f ? ::fileno(f) : -1;
    if (ip::tracked_fd(fd))
    {
        // the flush of stdio's own buffer (unused by libstdc++) and the close
        ip::on_call(ip::CLOSE, 0);
        ip::fds[fd] = false;
    }
    return real(f);
}

int close(int fd)
{
    static auto real = ip::next<int (*)(int)>("close");
    if (ip::tracked_fd(fd)) { ip::on_call(ip::CLOSE, 0); ip::fds[fd] = false; }
    return real(fd);
}

int rename(char const* a, char const* b)
{
    static auto real = ip::next<int (*)(char const*, char const*)>("rename");
    if (ip::tracked_path(a) || ip::tracked_path(b)) { ip::on_call(ip::RENAME, 0); }
    return real(a, b);
}

int unlink(char const* p)
{
    static auto real = ip::next<int (*)(char const*)>("unlink");
    if (ip::tracked_path(p)) { ip::on_call(ip::UNLINK, 0); }
    return real(p);
}

int remove(char const* p)
{
    static auto real = ip::next<int (*)(char const*)>("remove");
    if (ip::tracked_path(p)) { ip::on_call(ip::UNLINK, 0); }
    return real(p);
}

int ftruncate(int fd, off_t len)
{
    static auto real = ip::next<int (*)(int, off_t)>("ftruncate");
    if (ip::tracked_fd(fd)) { ip::on_call(ip::TRUNCATE, 0); }
    return real(fd, len);
}

int truncate(char const* p, off_t len)
{
    static auto real = ip::next<int (*)(char const*, off_t)>("truncate");
    if (ip::tracked_path(p)) { ip::on_call(ip::TRUNCATE, 0); }
    return real(p, len);
}

} // extern "C"

namespace
{

std::string slurp(std::string const& path, bool& exists)
{
    std::FILE* f = std::fopen(path.c_str(), "rb"); // (untracked while ip::active is false)
    exists = f != nullptr;
    std::string s;
    if (!f) { return s; }
    char buf[65536];
    std::size_t n;
    while ((n = std::fread(buf, 1, sizeof buf, f)) > 0) { s.append(buf, n); }
    std::fclose(f);
    return s;
}

void put(std::string const& path, std::string const& content)
{
    std::FILE* f = std::fopen(path.c_str(), "wb");
    if (f) { std::fwrite(content.data(), 1, content.size(), f); std::fclose(f); }
}

void clean_dir(std::string const& dir, std::string const&)
{
    // the scratch directory belongs to this case: remove whatever a (possibly changed) tree left in it
    if (DIR* d = ::opendir(dir.c_str()))
    {
        while (struct dirent* e = ::readdir(d))
        {
            std::string const name = e->d_name;
            if (name != "." && name != "..") { ::unlink((dir + name).c_str()); }
        }
        ::closedir(d);
    }
    ::mkdir(dir.c_str(), 0755);
}

template <typename T, typename R>
void workload(vf::Ctx& c, vf::RunCfg<T> const& cfg, std::vector<std::size_t> const& calls, std::size_t k0, char const* engine_name, bool verbose, std::string const& fname)
{
    // the verbose writing mode prints to std::cout: silence it for the whole workload (children inherit the redirection)
    struct Quiet : std::streambuf { int overflow(int ch) override { return ch; } std::streamsize xsputn(char const*, std::streamsize n) override { return n; } } quiet;
    struct Restore { std::streambuf* old; ~Restore() { std::cout.rdbuf(old); } } restore{std::cout.rdbuf(&quiet)};
    using Chk = typename R::Chk;
    std::string const dir = (vf::files().cur.empty() ? std::string("/tmp/vf-c18-") + std::to_string(::getpid()) : vf::files().cur) + ".c18d/";
    std::string const file = dir + fname;
    clean_dir(dir, file);
    auto go = [](Chk const&) { return true; };
    std::size_t const n = calls.size();
    std::function<void(int)> after_callback;

    // reference texts after 0..n iterations (k0 of them belong to an "earlier run" that left its file behind)
    std::vector<std::string> ref;
    {
        Chk const start = R::fresh(cfg);
        ref.push_back(vf::text_of(start));
        auto rec = [&ref](Chk const& k) { ref.push_back(vf::text_of(k)); return true; };
        (void) R::run(cfg, start, calls, rec);
    }
    VF_CHECK(c, ref.size() == n + 1, "C18:reference", "reference run performed " << ref.size() - 1 << " iterations");
    Chk earlier = R::fresh(cfg);
    if (k0) { earlier = R::run(cfg, earlier, std::vector<std::size_t>(calls.begin(), calls.begin() + k0), go); }
    std::vector<std::size_t> const rest(calls.begin() + k0, calls.end());

    // the run under test: resumes from `earlier`, writes the checkpoint after every iteration
    auto run_under_test = [&]() {
        ip::iteration = static_cast<int>(k0);
        hep::callback<Chk> inner(verbose ? hep::callback_mode::verbose_and_write_chkpt : hep::callback_mode::silent_and_write_chkpt, file, T(0));
        auto cb = [&, inner](Chk const& k) mutable { // calls made by the callback of iteration i carry i
            ++ip::iteration;
            bool const more = inner(k);
            if (ip::kill_after_callback && ip::fail_iteration == ip::iteration) { ::raise(SIGKILL); }
            if (after_callback) { bool const a = ip::active; ip::active = false; after_callback(ip::iteration); ip::active = a; }
            return more;
        };
        return R::run(cfg, earlier, rest, cb);
    };
    auto prepare_files = [&]() {
        clean_dir(dir, file);
        if (k0) { put(file, ref[k0]); }
    };

    // counting pass
    std::vector<ip::Call> seq;
    prepare_files();
    ip::base = dir;
    ip::recorded = &seq;
    ip::position = 0;
    ip::crash_at = -1; ip::prefix = -1; ip::short_at = -1;
    ip::counting = true;
    ip::active = true;
    (void) run_under_test();
    ip::active = false;
    ip::counting = false;
    {
        bool ex = false;
        std::string const got = slurp(file, ex);
        if (!rest.empty())
        {
            VF_CHECK(c, ex && got == ref[n], "C18:undisturbed-file", "after an undisturbed run the file is " << (ex ? "not the final checkpoint" : "missing"));
            VF_CHECK(c, !seq.empty(), "C18:no-tracked-calls", "the writing callback made no tracked file-system call: the interposer does not see this tree's I/O path");
        }
    }
    c.desc << vf::type_name<T>::get() << ' ' << engine_name << ' ' << cfg.describe() << " calls=" << vf::show(calls) << " earlier-run-iterations=" << k0
           << (verbose ? " verbose_and_write_chkpt" : " silent_and_write_chkpt") << " file-name=" << fname << " tracked-calls=" << seq.size() << " final-size=" << ref[n].size();

    std::size_t crashes = 0, inside = 0;
    std::vector<ip::Call> const* cur_seq = &seq; // the sequence of tracked calls the current experiments refer to
    bool any_earlier = false;                    // accept the complete checkpoint of any iteration from k0 to the current one
    auto check_after = [&](long pos, long pre, char const* kind) {
        std::vector<ip::Call> const& seq = *cur_seq;
        int const it = seq[pos].iteration; // the iteration whose callback was writing (1-based count of results)
        bool ex = false;
        std::string const got = slurp(file, ex);
        std::string const& prev = ref[it - 1];
        std::string const& cur = ref[it];
        // what was on disk when this callback started: the checkpoint of the previous iteration (written by this run or
        // left behind by the earlier run), or nothing at all
        bool const prev_exists = static_cast<std::size_t>(it - 1) > k0 || k0 > 0;
        bool ok = ex ? (got == cur || (prev_exists && got == prev)) : !prev_exists;
        if (!ok && ex && any_earlier) { for (std::size_t j = k0; j <= static_cast<std::size_t>(it); ++j) { if ((j > 0 || k0 > 0) && got == ref[j]) { ok = true; } } }
        VF_CHECK(c, ok, "C18:incomplete-file", kind << " at tracked call " << pos << " of " << seq.size() << " (" << (seq[pos].kind == ip::WRITE ? "write" : seq[pos].kind == ip::OPEN ? "open" :
            seq[pos].kind == ip::CLOSE ? "close" : seq[pos].kind == ip::RENAME ? "rename" : "other") << ", " << seq[pos].bytes << " bytes" << (pre >= 0 ? ", after " + std::to_string(pre) + " bytes" : std::string())
            << ") during the callback of iteration " << it << ": the file " << (ex ? "holds " + std::to_string(got.size()) + " bytes, neither the previous (" + std::to_string(prev.size())
            + " bytes) nor the new checkpoint (" + std::to_string(cur.size()) + " bytes)" : std::string("is gone although a complete checkpoint existed before")));
        // resume from whatever is there
        Chk resumed = R::fresh(cfg);
        std::size_t have = 0;
        if (ex)
        {
            std::istringstream in(got);
            resumed = R::load(in);
            VF_CHECK(c, !in.fail(), "C18:resume-read-failed", "the file left behind could not be read back");
            have = resumed.results().size();
        }
        // the resumed run writes checkpoints again, in the same directory, with whatever the killed run left behind
        // (e.g. a partial temporary file): after each of its callbacks the file must be exactly the checkpoint shown
        bool file_ok = true;
        std::size_t bad_at = 0;
        {
            hep::callback<Chk> inner(verbose ? hep::callback_mode::verbose_and_write_chkpt : hep::callback_mode::silent_and_write_chkpt, file, T(0));
            auto cb = [&, inner](Chk const& k) mutable {
                bool const more = inner(k);
                bool e2 = false;
                if (file_ok && slurp(file, e2) != vf::text_of(k)) { file_ok = false; bad_at = k.results().size(); }
                return more;
            };
            Chk const fin = R::run(cfg, resumed, std::vector<std::size_t>(calls.begin() + have, calls.end()), cb);
            VF_CHECK(c, vf::text_of(fin) == ref[n], "C18:resume-differs", kind << " at tracked call " << pos << ": resuming from the file does not reproduce the undisturbed run");
        }
        VF_CHECK(c, file_ok, "C18:resumed-run-writes-incomplete-file", kind << " at tracked call " << pos << ": the run resumed in the same directory wrote a file after iteration "
            << bad_at << " that is not the checkpoint of that iteration (left-overs of the killed run are not ignored)");
    };

    for (long pos = 0; pos != static_cast<long>(seq.size()); ++pos)
    {
        std::vector<long> prefixes = {-1};
        if (seq[pos].kind == ip::WRITE)
        {
            long const b = static_cast<long>(seq[pos].bytes);
            prefixes = {-1, 0, 1, b / 2, b - 1};
            if (vf::thorough())
            {
                if (ref[n].size() <= 4096) { for (long k = 2; k < b - 1; ++k) { prefixes.push_back(k); } }
                else { for (int k = 0; k != 64; ++k) { prefixes.push_back(static_cast<long>(vf::mix2(0xc18, pos * 64 + k) % static_cast<std::uint64_t>(b > 0 ? b : 1))); } }
            }
        }
        for (long pre : prefixes)
        {
            if (pre >= 0 && pre > static_cast<long>(seq[pos].bytes)) { continue; }
            prepare_files();
            pid_t const pid = ::fork();
            if (pid == 0)
            {
                ip::position = 0; ip::crash_at = pos; ip::prefix = pre; ip::short_at = -1; ip::fail_at = -1; ip::counting = false; ip::recorded = nullptr;
                ip::active = true;
                (void) run_under_test();
                ::_exit(42); // the crash point was not reached
            }
            int status = 0;
            ::waitpid(pid, &status, 0);
            VF_CHECK(c, WIFSIGNALED(status) && WTERMSIG(status) == SIGKILL, "C18:harness", "child for crash point " << pos << " did not die at it (status " << status << ")");
            ++crashes;
            ++c.sub;
            bool const had_complete_file = static_cast<std::size_t>(seq[pos].iteration - 1) > k0 || k0 > 0;
            if (had_complete_file) { ++inside; }
            check_after(pos, pre, "kill");
        }
    }
    // short writes (the kernel accepts only half of the bytes once): not fatal, the run must cope
    for (long pos = 0; pos != static_cast<long>(seq.size()); ++pos)
    {
        if (seq[pos].kind != ip::WRITE || seq[pos].bytes < 2) { continue; }
        prepare_files();
        ip::position = 0; ip::crash_at = -1; ip::prefix = -1; ip::short_at = pos; ip::counting = false; ip::recorded = nullptr;
        ip::active = true;
        Chk const out = run_under_test();
        ip::active = false;
        ip::short_at = -1;
        bool ex = false;
        std::string const got = slurp(file, ex);
        VF_CHECK(c, ex && got == ref[n] && vf::text_of(out) == ref[n], "C18:short-write", "a short write at tracked call " << pos << " left " << (ex ? "a file that is not the final checkpoint" : "no file"));
        ++c.sub;
    }
    // a directory in which no new file can be created (the temporary file cannot be opened) while the checkpoint left by the
    // earlier run is there and writable: no new checkpoint can be saved, but a kill at any point must still find a complete one
    if (k0 > 0)
    {
        std::vector<ip::Call> seq2;
        prepare_files();
        ip::base = dir; ip::recorded = &seq2; ip::position = 0;
        ip::crash_at = -1; ip::prefix = -1; ip::short_at = -1; ip::fail_at = -1;
        ip::counting = true; ip::deny_create = true; ip::active = true;
        (void) run_under_test();
        ip::active = false; ip::counting = false; ip::deny_create = false;
        cur_seq = &seq2;
        any_earlier = true;
        for (long pos = 0; pos != static_cast<long>(seq2.size()); ++pos)
        {
            std::vector<long> prefixes = {-1};
            if (seq2[pos].kind == ip::WRITE) { long const b = static_cast<long>(seq2[pos].bytes); prefixes = {-1, 0, 1, b / 2, b - 1}; }
            for (long pre : prefixes)
            {
                if (pre >= 0 && pre > static_cast<long>(seq2[pos].bytes)) { continue; }
                prepare_files();
                pid_t const pid = ::fork();
                if (pid == 0)
                {
                    ip::position = 0; ip::crash_at = pos; ip::prefix = pre; ip::short_at = -1; ip::fail_at = -1; ip::counting = false; ip::recorded = nullptr;
                    ip::deny_create = true; ip::active = true;
                    (void) run_under_test();
                    ::_exit(42);
                }
                int status = 0;
                ::waitpid(pid, &status, 0);
                VF_CHECK(c, WIFSIGNALED(status) && WTERMSIG(status) == SIGKILL, "C18:harness", "child for crash point " << pos << " (no new files can be created) did not die at it (status " << status << ")");
                ++c.sub;
                check_after(pos, pre, "kill while no new file can be created in the directory,");
            }
        }
        cur_seq = &seq;
        any_earlier = false;
        c.label("directory-without-create-permission");
    }
    // write errors (disk full, quota, I/O error): not fatal either. (a) the process is killed right after the callback in
    // which the error struck: the file must be the previous or the new complete checkpoint, as after any other kill;
    // (b) the run goes on: after every callback the file is the checkpoint of that iteration or unchanged, never a
    // fragment, and the results do not depend on the error
    std::size_t errors = 0;
    for (long pos = 0; pos != static_cast<long>(seq.size()); ++pos)
    {
        if (seq[pos].kind != ip::WRITE || seq[pos].bytes < 1) { continue; }
        for (int fm = 0; fm != 3; ++fm)
        {
            if (fm == 2 && seq[pos].bytes < 2) { continue; }
            char const* const what = fm == 0 ? "write error (EIO, once), kill after the callback" : fm == 1 ? "write error (ENOSPC until the callback returns), kill after the callback"
                : "write error (half of the bytes accepted, then ENOSPC), kill after the callback";
            prepare_files();
            pid_t const pid = ::fork();
            if (pid == 0)
            {
                ip::position = 0; ip::crash_at = -1; ip::prefix = -1; ip::short_at = -1; ip::counting = false; ip::recorded = nullptr;
                ip::fail_at = pos; ip::fail_mode = fm; ip::fail_iteration = -1; ip::kill_after_callback = true;
                ip::active = true;
                (void) run_under_test();
                ::_exit(42);
            }
            int status = 0;
            ::waitpid(pid, &status, 0);
            VF_CHECK(c, WIFSIGNALED(status) && WTERMSIG(status) == SIGKILL, "C18:harness", "child for the write error at call " << pos << " did not reach it (status " << status << ")");
            ++errors;
            ++c.sub;
            check_after(pos, -1, what);

            // (b) in this process, without a kill
            prepare_files();
            bool ex0 = false;
            std::string last = slurp(file, ex0);
            bool last_exists = ex0, sane = true;
            int bad_iteration = 0;
            after_callback = [&](int it) {
                bool e = false;
                std::string const now = slurp(file, e);
                bool const is_new = e && now == ref[static_cast<std::size_t>(it)];
                bool const unchanged = e == last_exists && now == last;
                if (sane && !is_new && !unchanged) { sane = false; bad_iteration = it; }
                last = now; last_exists = e;
            };
            ip::position = 0; ip::crash_at = -1; ip::prefix = -1; ip::short_at = -1; ip::counting = false; ip::recorded = nullptr;
            ip::fail_at = pos; ip::fail_mode = fm; ip::fail_iteration = -1; ip::kill_after_callback = false;
            ip::active = true;
            Chk const out = run_under_test();
            ip::active = false;
            ip::fail_at = -1; ip::fail_iteration = -1;
            after_callback = nullptr;
            VF_CHECK(c, sane, "C18:write-error-leaves-fragment", "a write error at tracked call " << pos << " (mode " << fm << "): after the callback of iteration " << bad_iteration
                << " the file is neither the checkpoint of that iteration nor what was there before");
            VF_CHECK(c, vf::text_of(out) == ref[n], "C18:write-error-changes-run", "a write error at tracked call " << pos << " changed the returned checkpoint");
            ++c.sub;
        }
    }
    clean_dir(dir, file);
    ::rmdir(dir.c_str());
    if (errors) { c.label("write-errors"); }
    if (fname != "run.chkpt") { c.label("file-name:" + fname); }
    if (inside) { c.label("crash-with-complete-file-at-stake"); }
    if (k0) { c.label("file-from-earlier-run"); }
    if (ref[n].size() > 9000) { c.label("larger-than-stream-buffer"); }
    c.label(R::kind == vf::PLAIN ? "PLAIN" : R::kind == vf::VEGAS ? "VEGAS" : "MULTI");
    c.nontrivial = inside > 0;
}

template <typename T>
void run_t(vf::Ctx& c)
{
    vf::Tape& t = c.t;
    vf::RunCfg<T> cfg = vf::gen_cfg<T>(t);
    if (t.pick(3) == 0) { cfg.fn.dists.clear(); }
    // checkpoint size: from a couple of hundred bytes to far beyond the stream buffer
    if (cfg.kind == vf::VEGAS && t.pick(3) == 0) { cfg.bins = 60 + t.pick(69); cfg.user_grid = false; cfg.dims = 2 + t.pick(4); cfg.fn.dims = cfg.dims; }
    std::size_t const n = 1 + t.pick(4);
    std::vector<std::size_t> calls;
    for (std::size_t i = 0; i != n; ++i) { calls.push_back(t.pick(6) == 0 ? t.range(0, 2) : 2 + t.range(0, 60)); }
    std::size_t const k0 = t.flag() ? t.pick(n) : 0;
    bool const small_engine = t.flag();
    bool const verbose = t.pick(3) == 0;
    // file names: with / without an extension, several dots, hidden, and names that end like a temporary file would
    static char const* const names[] = {"run.chkpt", "run", "run.tmp", "a.b.c", ".hidden", "run.chkpt.tmp", "tmp", "run.chkpt~"};
    std::string const fname = names[t.pick(3) == 0 ? 1 + t.pick(7) : 0];
    // a very long distribution name: the stream buffer is flushed in the middle of it (whatever writes the name sees the error)
    if (!cfg.fn.dists.empty() && t.pick(3) == 1) { cfg.fn.dists[0].name = std::string(2000 + t.pick(3000), 'n'); c.label("very-long-distribution-name"); }
    if (small_engine)
    {
        using E = std::minstd_rand;
        switch (cfg.kind)
        {
        case vf::PLAIN: workload<T, vf::Plain<T, E>>(c, cfg, calls, k0, "minstd_rand", verbose, fname); break;
        case vf::VEGAS: workload<T, vf::Vegas<T, E>>(c, cfg, calls, k0, "minstd_rand", verbose, fname); break;
        default: workload<T, vf::Multi<T, E>>(c, cfg, calls, k0, "minstd_rand", verbose, fname); break;
        }
    }
    else
    {
        using E = std::mt19937;
        switch (cfg.kind)
        {
        case vf::PLAIN: workload<T, vf::Plain<T, E>>(c, cfg, calls, k0, "mt19937", verbose, fname); break;
        case vf::VEGAS: workload<T, vf::Vegas<T, E>>(c, cfg, calls, k0, "mt19937", verbose, fname); break;
        default: workload<T, vf::Multi<T, E>>(c, cfg, calls, k0, "mt19937", verbose, fname); break;
        }
    }
}

void run(vf::Ctx& c)
{
    if (c.t.flag()) { run_t<float>(c); } else { run_t<double>(c); }
}

} // namespace

vf::Property const vf::property = {"C18", "", run, nullptr, nullptr};
