// C09 - channel selection follows the weights exactly and never picks a disabled channel.
// Domain: weight vectors (zeros anywhere, unnormalised, extreme ratios) x canonical values forced
// through a scripted engine: 0, largest below 1, every cumulative boundary and its neighbours,
// an equidistributed lattice, random values; also real engines and multi_channel_iteration.
// Oracle: interval model in long double + exact validity predicate (index < n, weight > 0).
#include "hep/mc/discrete_distribution.hpp"
#include "hep/mc/multi_channel.hpp"
#include "hep/mc/multi_channel_integrand.hpp"

#include "../lib/gen.hpp"
#include "../lib/instruments.hpp"
#include "../lib/harness.hpp"

#include <numeric>

namespace
{

template <typename T>
struct Model
{
    std::vector<long double> cum; // cumulative normalised weights, cum[n-1] == 1
    long double tol;
    std::size_t n;

    explicit Model(std::vector<T> const& w) : n(w.size())
    {
        long double total = 0;
        for (auto x : w) { total += x; }
        long double run = 0;
        for (auto x : w) { run += x; cum.push_back(run / total); }
        tol = 4.0L * n * std::numeric_limits<T>::epsilon();
    }

    // is `i` an admissible answer for canonical value u?
    bool admissible(std::vector<T> const& w, std::size_t i, long double u) const
    {
        if (i >= n || !(w[i] > T(0))) { return false; }
        long double const lo = (i == 0) ? 0.0L : cum[i - 1];
        long double const hi = cum[i];
        return (lo - tol <= u) && (u <= hi + tol);
    }
};

template <typename T>
std::size_t select(hep::discrete_distribution<std::size_t, T> const& dist, long double u, T& seen,
    vf::Ctx& c)
{
    std::vector<std::uint64_t> script;
    vf::push_canonical<T>(script, u);
    {
        // what the library will see (same std::generate_canonical on the same script)
        vf::script_engine probe(script);
        seen = std::generate_canonical<T, std::numeric_limits<T>::digits>(probe);
    }
    vf::script_engine eng(script);
    std::size_t const i = dist(eng);
    VF_CHECK(c, eng.position() == script.size(), "C09:draws", "selection consumed " << eng.position()
        << " raw draws, one generate_canonical costs " << script.size());
    return i;
}

template <typename T>
struct id_map
{
    std::vector<T> const* weights;
    bool* bad;
    bool* not_enabled; // the selected channel is missing from the list of enabled channels the integrator hands to the map
    T operator()(std::size_t channel, std::vector<T> const& rn, std::vector<T>& coords,
        std::vector<std::size_t> const& enabled, std::vector<T>& dens, hep::multi_channel_map action)
    {
        if (channel >= weights->size() || !((*weights)[channel] > T(0))) { *bad = true; }
        if (std::find(enabled.begin(), enabled.end(), channel) == enabled.end()) { *not_enabled = true; }
        if (action == hep::multi_channel_map::calculate_densities)
        {
            for (auto ch : enabled) { dens[ch] = T(1); }
            return T(1);
        }
        coords[0] = rn[0];
        return T(1);
    }
};

template <typename T>
void run_t(vf::Ctx& c)
{
    vf::Tape& t = c.t;
    std::string how;
    std::vector<T> const w = vf::gen_weights<T>(t, 64, &how);
    std::size_t const n = w.size();
    std::size_t zeros = 0, pos = 0;
    for (auto x : w) { (x > T(0)) ? ++pos : ++zeros; }
    c.desc << vf::type_name<T>::get() << " weights(" << how << ")=" << vf::show(w);
    if (zeros) { c.label("has-zero-weight"); }
    if (w[0] == T(0)) { c.label("zero-first"); }
    if (w[n - 1] == T(0)) { c.label("zero-last"); }

    Model<T> const model(w);
    hep::discrete_distribution<std::size_t, T> dist(w.begin(), w.end());

    auto judge = [&](long double u_req, char const* what) {
        T seen;
        std::size_t const i = select<T>(dist, u_req, seen, c);
        ++c.sub;
        VF_CHECK(c, i < n, "C09:index-range", what << ": u=" << vf::show(seen) << " selected index " << i << " of " << n
            << " channels");
        VF_CHECK(c, w[i] > T(0), "C09:disabled-selected", what << ": u=" << vf::show(seen) << " selected channel " << i
            << " whose weight is zero");
        VF_CHECK(c, model.admissible(w, i, static_cast<long double>(seen)), "C09:interval", what << ": u="
            << vf::show(seen) << " selected channel " << i << " with cumulative interval ["
            << vf::show<long double>(i ? model.cum[i - 1] : 0.0L) << ", " << vf::show<long double>(model.cum[i]) << "]");
    };

    // extremes
    judge(0.0L, "zero");
    judge(static_cast<long double>(std::nextafter(T(1), T(0))), "largest below one");
    judge(1.0L - std::ldexp(1.0L, -64), "largest raw output");

    // every cumulative boundary (computed in T the way a caller would) and two neighbours each side
    {
        std::vector<T> sums(n);
        std::partial_sum(w.begin(), w.end(), sums.begin());
        for (std::size_t i = 0; i != n; ++i)
        {
            T const b = sums[i] / sums[n - 1];
            T cand[5] = {b, std::nextafter(b, T(0)), std::nextafter(std::nextafter(b, T(0)), T(0)),
                std::nextafter(b, T(2)), std::nextafter(std::nextafter(b, T(2)), T(2))};
            for (T u : cand)
            {
                if (u >= T(0) && u < T(1)) { judge(static_cast<long double>(u), "boundary neighbourhood"); }
            }
        }
        // also the long double model boundaries rounded into T
        for (std::size_t i = 0; i != n; ++i)
        {
            T const b = static_cast<T>(model.cum[i]);
            if (b >= T(0) && b < T(1)) { judge(static_cast<long double>(b), "model boundary"); }
        }
    }
    bool near_boundary = true; // the block above always probes values within 2 lattice steps

    // the same weights as small integers, scaled by exact powers of two down to the smallest normal and into the subnormal
    // range: every normalised cumulative sum is the same number, so every selection is the same
    {
        T mx = T(0);
        for (auto x : w) { mx = std::max(mx, x); }
        std::vector<T> wa(n), wb(n), wc(n);
        for (std::size_t i = 0; i != n; ++i)
        {
            wa[i] = w[i] > T(0) ? std::max(T(1), std::floor(w[i] / mx * T(1000))) : T(0);
            wb[i] = wa[i] * std::numeric_limits<T>::denorm_min();
            wc[i] = wa[i] * std::numeric_limits<T>::min();
        }
        hep::discrete_distribution<std::size_t, T> da(wa.begin(), wa.end()), db(wb.begin(), wb.end()), dc(wc.begin(), wc.end());
        std::vector<T> sums(n);
        std::partial_sum(wa.begin(), wa.end(), sums.begin());
        std::vector<long double> us = {0.0L, static_cast<long double>(std::nextafter(T(1), T(0))), 0.5L};
        for (std::size_t i = 0; i != n; ++i)
        {
            T const b = sums[i] / sums[n - 1];
            for (T u : {b, std::nextafter(b, T(0)), std::nextafter(b, T(2))}) { if (u >= T(0) && u < T(1)) { us.push_back(static_cast<long double>(u)); } }
        }
        for (long double u : us)
        {
            T seen;
            std::size_t const ia = select<T>(da, u, seen, c), ib = select<T>(db, u, seen, c), ic = select<T>(dc, u, seen, c);
            ++c.sub;
            VF_CHECK(c, ib < n && ic < n, "C09:index-range", "weights " << vf::show(wa) << " times denorm_min / min: u=" << vf::show(seen) << " selected index " << ib << " / " << ic << " of " << n);
            VF_CHECK(c, wa[ib] > T(0) && wa[ic] > T(0), "C09:disabled-selected", "weights " << vf::show(wa) << " times denorm_min / min: u=" << vf::show(seen) << " selected a channel of weight zero");
            VF_CHECK(c, ia == ib && ia == ic, "C09:scale-invariance", "weights " << vf::show(wa) << ": u=" << vf::show(seen) << " selects channel " << ia << ", after scaling all weights by denorm_min channel "
                << ib << ", by the smallest normal number channel " << ic);
        }
        // exact rule for these integer weights (every partial sum is exact in T, a boundary is the correctly rounded quotient
        // S_i / S_n): a canonical number that is not that rounded boundary itself lies strictly on one side of the exact
        // boundary, and the exact comparison u * S_n < S_i (carried out in integers) decides the channel
        {
            using u128 = unsigned __int128;
            std::vector<std::uint64_t> S(n);
            { std::uint64_t run = 0; for (std::size_t i = 0; i != n; ++i) { run += static_cast<std::uint64_t>(wa[i]); S[i] = run; } }
            auto below = [&](T u, std::uint64_t Si) { // u * S_n < S_i ?
                if (u == T(0)) { return Si > 0; }
                int e = 0;
                long double const mant = std::frexp(static_cast<long double>(u), &e); // u = mant * 2^e, mant in [0.5, 1)
                std::uint64_t const m = static_cast<std::uint64_t>(std::ldexp(mant, 64));   // exact: <= 64 significant bits
                int const sh = 64 - e;                                                    // u = m / 2^sh, sh >= 64
                u128 const lhs = static_cast<u128>(m) * S[n - 1];                          // < 2^64 * 2^17
                if (sh >= 100) { return Si > 0; }
                return lhs < (static_cast<u128>(Si) << sh);
            };
            for (std::size_t i = 0; i + 1 < n; ++i)
            {
                T const b = sums[i] / sums[n - 1];
                for (T u : {std::nextafter(b, T(0)), std::nextafter(std::nextafter(b, T(0)), T(0)), std::nextafter(b, T(2)), std::nextafter(std::nextafter(b, T(2)), T(2))})
                {
                    if (!(u >= T(0) && u < T(1)) || u == b) { continue; }
                    T seen;
                    std::size_t const got = select<T>(da, static_cast<long double>(u), seen, c);
                    if (seen == b) { continue; } // (the engine delivers multiples of 2^-64: judge the number that was actually drawn)
                    std::size_t expect = 0;
                    while (expect + 1 < n && !below(seen, S[expect])) { ++expect; }
                    ++c.sub;
                    VF_CHECK(c, got == expect, "C09:exact-interval", "integer weights " << vf::show(wa) << ": the canonical number " << vf::show(seen) << " next to the boundary " << vf::show(b)
                        << " selected channel " << got << ", it lies in the interval of channel " << expect);
                }
            }
        }
    }

    // exact class: integer weights that sum to 2^digits, so that every cumulative boundary c / 2^digits is a canonical number
    // and no rounding is involved anywhere: the half-open intervals decide, a number equal to a boundary belongs to the
    // channel above it; one boundary is the largest canonical number itself (the last channel has the smallest possible share)
    if (n >= 2)
    {
        int const D = std::numeric_limits<T>::digits;
        std::uint64_t const hs = vf::mix2(0xC09, static_cast<std::uint64_t>(n) * 1315423911u + static_cast<std::uint64_t>(static_cast<long double>(w[0]) * 1e6L));
        std::vector<long double> cuts; // c_1 <= ... <= c_{n-1}, as exact integers in [0, 2^D - 1]
        for (std::size_t i = 1; i < n; ++i) { cuts.push_back(static_cast<long double>(vf::mix2(hs, i) >> (64 - D))); }
        cuts.back() = std::ldexp(1.0L, D) - 1; // the largest canonical number times 2^D
        if (n >= 3 && (hs & 1)) { cuts[0] = cuts[1]; } // a channel of weight zero in between
        std::sort(cuts.begin(), cuts.end());
        std::vector<T> we(n);
        long double prev = 0;
        for (std::size_t i = 0; i + 1 < n; ++i) { we[i] = static_cast<T>(cuts[i] - prev); prev = cuts[i]; }
        we[n - 1] = static_cast<T>(std::ldexp(1.0L, D) - prev);
        bool exact = true; // (differences of D-bit integers are exact in T; the check is cheap)
        { long double tot = 0; for (auto x : we) { tot += x; } exact = tot == std::ldexp(1.0L, D); }
        if (exact)
        {
            hep::discrete_distribution<std::size_t, T> de(we.begin(), we.end());
            auto expect = [&](long double cnum) { std::size_t i = 0; while (i + 1 < n && cuts[i] <= cnum) { ++i; } return i; };
            std::vector<long double> probe = {0.0L, std::ldexp(1.0L, D) - 1, std::ldexp(1.0L, D) - 2};
            for (auto cv : cuts) { probe.push_back(cv); if (cv >= 1) { probe.push_back(cv - 1); } if (cv + 1 < std::ldexp(1.0L, D)) { probe.push_back(cv + 1); } }
            for (long double cnum : probe)
            {
                T seen;
                std::size_t const got = select<T>(de, std::ldexp(cnum, -D), seen, c);
                ++c.sub;
                VF_CHECK(c, got == expect(cnum), "C09:exact-interval", "integer weights " << vf::show(we, 8) << " (sum 2^" << D << "): the canonical number " << vf::show<long double>(cnum) << " / 2^" << D
                    << " selected channel " << got << ", its half-open interval belongs to channel " << expect(cnum));
            }
            c.label("exact-dyadic-weights");
        }
    }

    // random canonical values
    std::size_t const nrand = t.range(0, 64);
    std::uint64_t const rseed = t.stream_seed();
    for (std::size_t k = 0; k != nrand; ++k)
    {
        judge(static_cast<long double>(vf::stream_unit(rseed, k)), "random value");
    }

    // equidistributed lattice: selection frequencies equal the weights
    bool const lattice = t.chance(1, 4);
    if (lattice)
    {
        unsigned const bitsM = 10 + static_cast<unsigned>(t.range(0, vf::thorough() ? 6 : 3));
        std::size_t const M = std::size_t(1) << bitsM;
        std::vector<std::size_t> count(n);
        for (std::size_t k = 0; k != M; ++k)
        {
            long double const u = (k + 0.5L) / M;
            T seen;
            std::size_t const i = select<T>(dist, u, seen, c);
            VF_CHECK(c, i < n && w[i] > T(0), "C09:lattice-valid", "lattice u=" << vf::show(seen) << " selected " << i);
            ++count[i];
            ++c.sub;
        }
        long double total = 0;
        for (auto x : w) { total += x; }
        long double const tol = (2.0L + 8.0L * n * vf::eps<T>() * M) / M;
        for (std::size_t i = 0; i != n; ++i)
        {
            long double const freq = static_cast<long double>(count[i]) / M;
            long double const p = static_cast<long double>(w[i]) / total;
            long double const err = std::fabs(freq - p);
            c.note_margin(tol, err);
            VF_CHECK(c, err <= tol, "C09:frequency", "lattice of " << M << " values: channel " << i << " selected "
                << count[i] << " times, weight share " << vf::show<long double>(p));
        }
        c.label("lattice");
        c.desc << " lattice=2^" << bitsM;
    }

    // real engines: index range / enabled invariant
    if (t.chance(1, 3))
    {
        std::mt19937 e1(static_cast<std::uint32_t>(t.next()));
        std::minstd_rand e2(static_cast<std::uint32_t>(t.next() | 1u));
        std::ranlux48_base e3(static_cast<std::uint32_t>(t.next()));
        std::mt19937_64 e4(t.next());
        for (int k = 0; k != 64; ++k)
        {
            std::size_t const r[4] = {dist(e1), dist(e2), dist(e3), dist(e4)};
            for (auto i : r)
            {
                VF_CHECK(c, i < n && w[i] > T(0), "C09:real-engine", "real engine selected channel " << i);
                ++c.sub;
            }
        }
        c.label("real-engines");
    }

    // inside multi_channel_iteration: the channel the map / integrand see (boundary numbers and 0)
    if (t.chance(1, 3))
    {
        std::vector<T> sums(n);
        std::partial_sum(w.begin(), w.end(), sums.begin());
        std::vector<std::uint64_t> script;
        std::size_t calls = 0;
        auto add_call = [&](long double sel) {
            vf::push_canonical<T>(script, 0.25L); // the single random number of the point
            vf::push_canonical<T>(script, sel);   // the channel selection number
            ++calls;
        };
        add_call(0.0L);
        add_call(static_cast<long double>(std::nextafter(T(1), T(0))));
        for (std::size_t i = 0; i != n; ++i)
        {
            T const b = sums[i] / sums[n - 1];
            if (b < T(1)) { add_call(static_cast<long double>(b)); }
        }
        bool bad_map = false, not_enabled = false;
        bool bad_integrand = false;
        std::vector<T> const* wp = &w;
        auto f = [&bad_integrand, wp](hep::multi_channel_point<T> const& p) -> T {
            if (p.channel() >= wp->size() || !((*wp)[p.channel()] > T(0))) { bad_integrand = true; }
            return T(1);
        };
        vf::script_engine eng(script);
        auto integrand = hep::make_multi_channel_integrand<T>(f, 1, id_map<T>{&w, &bad_map, &not_enabled}, 1, n);
        auto const res = hep::multi_channel_iteration(integrand, calls, w, eng);
        c.sub += calls;
        VF_CHECK(c, !bad_map, "C09:iteration-map-disabled", "multi_channel_iteration asked the map for a disabled or invalid channel");
        VF_CHECK(c, !not_enabled, "C09:iteration-selected-not-enabled", "multi_channel_iteration selected a channel that is missing from the list of enabled channels it hands to the map");
        VF_CHECK(c, !bad_integrand, "C09:iteration-integrand-disabled", "multi_channel_iteration handed the integrand a disabled or invalid channel");
        VF_CHECK(c, res.calls() == calls, "C09:iteration-calls", "calls " << res.calls());
        c.label("in-iteration");
    }

    c.nontrivial = (zeros >= 1 && pos >= 2) || (near_boundary && n >= 2 && pos >= 2);
}

void run(vf::Ctx& c)
{
    vf::with_type(c.t, [&](auto tag) { run_t<decltype(tag)>(c); });
}

void enumerate(vf::Enum& e)
{
    // unit weights, up to 6 channels, every contiguous run of zeros (front / end / middle)
    for (std::uint64_t type = 0; type != 3; ++type)
    {
        for (std::uint64_t n = 1; n <= 6; ++n)
        {
            for (std::uint64_t cls = 0; cls != 4; ++cls)
            {
                for (std::uint64_t k = 0; k != n; ++k)
                {
                    for (std::uint64_t k2 = 0; k2 != (cls == 3 ? n : 1); ++k2)
                    {
                        std::vector<std::uint64_t> tape = {type, 1, n - 1, 1, cls};
                        if (cls == 1 || cls == 2) { tape.push_back(k); }
                        if (cls == 3) { tape.push_back(k); tape.push_back(k2); }
                        if (!e.exec(tape)) { return; }
                    }
                }
            }
        }
    }
    e.space = "unit weights, 1..6 channels, every run of zeros at the front / end / middle, three numeric types";
}

} // namespace

vf::Property const vf::property = {"C09", "", run, enumerate, nullptr};
