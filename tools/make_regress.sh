#!/bin/bash
# usage: tools/make_regress.sh <ID> <fix-revert patch> <name>: runs the quick check against the tree with the fix reverted and
# keeps the smallest failing tape as replays/regress/<ID>/<name>.tape (it must HOLD on the repaired tree).
cd "$(dirname "$0")/.."
id=$1; patch=$(readlink -f "$2"); name=$3
d=$(mktemp -d /tmp/vreg.XXXXXX)
cp -r /repo/include "$d/include"
(cd "$d" && patch -s -p1 -R < "$patch") || { echo "patch failed"; rm -rf "$d"; exit 3; }
VERIF_REPO="$d" ./vcheck "$id" --tier quick > "$d/out.log" 2>&1
best=$(ls -S "$d"/found/$id-*.tape 2>/dev/null | tail -1)
if [ -n "$best" ]; then mkdir -p replays/regress/$id; cp "$best" replays/regress/$id/$name.tape; echo "saved replays/regress/$id/$name.tape ($(wc -c < "$best") bytes)"; else echo "no failing tape for $id $name"; fi
rm -rf "$d"
