#!/usr/bin/env python3
"""Cross-check of lib/shim/mpi.h against the real MPI of this image (spot check, run by the thorough tier of C04).
Builds tools/mpi_crosscheck.cpp twice (mpicxx / g++ -I lib/shim), runs both for P in {1,2,3,4,7}, compares the per-rank
files. Prints one line and exits 0 (agree), 1 (disagree) or 77 (real MPI cannot be started here: inconclusive)."""
import os, shutil, subprocess, sys, tempfile
HERE = os.path.dirname(os.path.dirname(os.path.abspath(__file__)))
REPO = os.environ.get("VERIF_REPO", "/repo")
work = tempfile.mkdtemp(prefix="vf-mpix-")
try:
    src = os.path.join(HERE, "tools", "mpi_crosscheck.cpp")
    real = os.path.join(work, "real"); sh = os.path.join(work, "shim")
    r1 = subprocess.run(["mpicxx", "-std=gnu++17", "-O1", "-I", os.path.join(REPO, "include"), src, "-o", real], capture_output=True, text=True)
    if r1.returncode != 0:
        print("MPI-CROSSCHECK skipped: mpicxx failed: " + r1.stderr[-300:].replace("\n", " ")); sys.exit(77)
    r2 = subprocess.run(["g++", "-std=gnu++17", "-O1", "-pthread", "-I", os.path.join(HERE, "lib", "shim"), "-I", os.path.join(REPO, "include"), src, "-o", sh],
                        capture_output=True, text=True)
    if r2.returncode != 0:
        print("MPI-CROSSCHECK broken: shim build failed: " + r2.stderr[-600:]); sys.exit(2)
    compared = points = 0
    for P in (1, 2, 3, 4, 7):
        dr = os.path.join(work, "r%d" % P); ds = os.path.join(work, "s%d" % P)
        os.makedirs(dr); os.makedirs(ds)
        env = dict(os.environ, OMPI_ALLOW_RUN_AS_ROOT="1", OMPI_ALLOW_RUN_AS_ROOT_CONFIRM="1")
        p = subprocess.run(["mpirun", "--allow-run-as-root", "--oversubscribe", "-np", str(P), real, dr], capture_output=True, text=True, env=env, timeout=900)
        if p.returncode != 0:
            print("MPI-CROSSCHECK skipped: mpirun -np %d failed: %s" % (P, (p.stderr or p.stdout)[-300:].replace("\n", " "))); sys.exit(77)
        q = subprocess.run([sh, ds, str(P)], capture_output=True, text=True, timeout=900)
        if q.returncode != 0:
            print("MPI-CROSSCHECK disagree: shim run failed for P=%d: %s" % (P, (q.stderr or q.stdout)[-300:])); sys.exit(1)
        fr = sorted(os.listdir(dr)); fs = sorted(os.listdir(ds))
        if fr != fs:
            print("MPI-CROSSCHECK disagree: different sets of rank files for P=%d" % P); sys.exit(1)
        for f in fr:
            a = open(os.path.join(dr, f)).read().splitlines(); b = open(os.path.join(ds, f)).read().splitlines()
            adaptive = not f.startswith("k0")
            # header lines and call counts always; points of iteration 0 always; later points only for PLAIN
            def keep(lines):
                return [l for l in lines if not l.startswith("p ") or not adaptive]
            ka, kb = keep(a), keep(b)
            if ka != kb:
                diff = next((i for i, (x, y) in enumerate(zip(ka, kb)) if x != y), min(len(ka), len(kb)))
                print("MPI-CROSSCHECK disagree: %s differs at line %d: real '%s' shim '%s'" % (f, diff, ka[diff] if diff < len(ka) else "<end>", kb[diff] if diff < len(kb) else "<end>"))
                sys.exit(1)
            compared += 1
            points += sum(1 for l in ka if l.startswith("p"))
    print("MPI-CROSSCHECK agree: %d rank files, %d points identical between real MPI and the shim (P in 1,2,3,4,7)" % (compared, points))
    sys.exit(0)
finally:
    shutil.rmtree(work, ignore_errors=True)
