#!/bin/bash
# usage: tools/try_patch.sh <ID> <patch> [-R] [tier]   run one check against a scratch copy of /repo/include with a patch
# applied (or reverse-applied with -R). Exit status is vcheck's. The copy lives outside /repo and /verif and is removed.
set -u
id=$1; patch=$(readlink -f "$2"); rev=""; tier=quick
shift 2
for a in "$@"; do case $a in -R) rev="-R";; quick|thorough) tier=$a;; esac; done
d=$(mktemp -d /tmp/vmut.XXXXXX)
cp -r /repo/include "$d/include"
if ! (cd "$d" && patch -s -p1 $rev < "$patch"); then echo "PATCH FAILED"; rm -rf "$d"; exit 3; fi
cd "$(dirname "$0")/.."
VERIF_REPO="$d" ./vcheck "$id" --tier "$tier"
rc=$?
if [ -d "$d/found" ]; then mkdir -p /tmp/vmut-found; cp "$d"/found/* /tmp/vmut-found/ 2>/dev/null; fi
rm -rf "$d"
exit $rc
