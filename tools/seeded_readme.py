#!/usr/bin/env python3
"""Writes seeded/README.md from seeded/*/meta.json and seeded/detection.json."""
import json, os
HERE = os.path.dirname(os.path.dirname(os.path.abspath(__file__)))
S = os.path.join(HERE, "seeded")
det = json.load(open(os.path.join(S, "detection.json"))) if os.path.exists(os.path.join(S, "detection.json")) else {}
rows = []
for d in sorted(os.listdir(S)):
    mp = os.path.join(S, d, "meta.json")
    if not os.path.exists(mp):
        continue
    m = json.load(open(mp))
    dd = det.get(d, {})
    caught = ", ".join("%s (%s)" % (k, v.split(" ", 1)[1] if " " in v else v) for k, v in sorted(dd.items()) if v.startswith("caught"))
    missed = ", ".join(k for k, v in sorted(dd.items()) if not v.startswith("caught"))
    rows.append("| %s | %s | %s | %s | %s |" % (d, m["change"].replace("|", "/"), m["needs_to_manifest"].replace("|", "/"), caught or "-", missed or "-"))
with open(os.path.join(S, "README.md"), "w") as f:
    f.write(("# Seeded changes\n\n%d changes to cschwan/hep-mc written by independent sub-agents in seven rounds (each saw only one property record, the list of "
            "changes already known, and a scratch worktree of /repo - nothing from /verif). Each breaks its property, still compiles, still passes the 19 baseline tests and needs "
            "something specific to manifest. All were confirmed with `tools/confirm_seeded.sh` (see `<dir>/confirm.log`). `tools/run_seeded.py` runs the "
            "quick checks against each of them in a scratch copy of /repo/include (`tools/try_patch.sh`); never in /repo.\n\n"
            "'missed' lists checks of *other* properties (or of the serial unit only) that were tried and do not see the change - by the property's "
            "own check every change below is caught.\n\n"
            "A '-' in the 'caught by' column means that the quick checks have not been run against that change through `tools/run_seeded.py` / "
            "`tools/merge_batch_log.py` yet.\n\n"
            "| id | change | needs in order to manifest | caught by (first signature) | tried, not caught by |\n|---|---|---|---|---|\n") % len(rows))
    f.write("\n".join(rows) + "\n")
print("seeded/README.md:", len(rows), "rows")
