#!/bin/bash
# usage: tools/confirm_seeded.sh <staging dir with mK.diff demoK.cpp> <K> <outdir>
# Confirms in a scratch worktree of /repo (outside /repo and /verif): demo passes on the original tree, the patch applies,
# the 19 baseline tests still pass with it, the demo fails with it. Writes <outdir>/confirm.log; exit 0 when all confirmed.
set -u
src=$(readlink -f "$1"); k=$2; out=$3
mkdir -p "$out"
log="$out/confirm.log"; : > "$log"
wt=$(mktemp -d /tmp/vseed.XXXXXX); rmdir "$wt"
git -C /repo worktree add -q --detach "$wt" HEAD >>"$log" 2>&1 || { echo "worktree failed" >>"$log"; exit 2; }
cleanup() { git -C /repo worktree remove --force "$wt" >/dev/null 2>&1; rm -rf "$wt"; }
trap cleanup EXIT
cd "$wt"
demo="$src/demo$k.cpp"
cxx=g++; runner=""
if grep -q "mpi.h\|mc-mpi.hpp" "$demo"; then cxx=mpicxx; runner="mpirun --allow-run-as-root --oversubscribe -np 3"; fi
echo "== demo on original tree" >>"$log"
$cxx -std=c++11 -O1 -I "$wt/include" "$demo" -o "$wt/demo_orig" >>"$log" 2>&1 || { echo "RESULT demo does not compile on original" >>"$log"; exit 1; }
(cd "$wt" && timeout 600 $runner ./demo_orig) >>"$log" 2>&1; rc0=$?
echo "demo on original: exit $rc0" >>"$log"
echo "== apply patch" >>"$log"
git apply "$src/m$k.diff" >>"$log" 2>&1 || { echo "RESULT patch does not apply" >>"$log"; exit 1; }
echo "== baseline tests with the patch" >>"$log"
meson setup _b >/dev/null 2>&1
meson test -C _b 2>&1 | grep -E "^(Ok|Fail|Timeout):" >>"$log"
ok=$(grep -E "^Ok:" "$log" | tail -1 | awk '{print $2}')
$cxx -std=c++11 -O1 -I "$wt/include" "$demo" -o "$wt/demo_mut" >>"$log" 2>&1 || { echo "RESULT demo does not compile with patch" >>"$log"; exit 1; }
(cd "$wt" && timeout 600 $runner ./demo_mut) >>"$log" 2>&1; rc1=$?
echo "demo with patch: exit $rc1" >>"$log"
if [ "$rc0" = 0 ] && [ "$rc1" != 0 ] && [ "$ok" = 19 ]; then echo "RESULT confirmed tests_ok=$ok demo_orig=$rc0 demo_patched=$rc1" >>"$log"; exit 0; fi
echo "RESULT NOT confirmed tests_ok=$ok demo_orig=$rc0 demo_patched=$rc1" >>"$log"; exit 1
