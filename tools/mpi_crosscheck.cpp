// Cross-check of the in-process MPI shim against a real MPI (thorough tier of C04, spot check).
// The same program is built twice: with mpicxx (real <mpi.h>) and with g++ -I lib/shim (the shim).
// For a fixed list of configurations every rank writes its point log (hex floats), its per-iteration
// call counts and the counters of the returned checkpoint to <outdir>/<cfg>.P<P>.rank<r>.txt; the
// driver (tools/mpi_crosscheck.py) compares the two sets of files. Non-adaptive PLAIN runs must agree
// in every point of every iteration; adaptive runs in every point of the first iteration (later grids
// depend on the reduction order, which MPI leaves open) and in all call counts.
#include <mpi.h>

#include "hep/mc-mpi.hpp"

#include <cstdio>
#include <fstream>
#include <sstream>
#include <string>
#include <vector>

namespace
{

template <typename T>
struct Log
{
    std::vector<std::vector<T>> points;
    std::vector<std::size_t> cuts;
};

template <typename T>
struct Fn
{
    Log<T>* log;
    T operator()(hep::mc_point<T> const& p) const
    {
        log->points.push_back(p.point());
        T v = T(1);
        for (auto x : p.point()) { v *= T(0.5) + x; }
        return v;
    }
};

template <typename T>
T unit_map(std::size_t, std::vector<T> const& rn, std::vector<T>& coords, std::vector<std::size_t> const& enabled, std::vector<T>& dens, hep::multi_channel_map action)
{
    if (action == hep::multi_channel_map::calculate_densities)
    {
        for (auto ch : enabled) { dens[ch] = T(1); }
        return T(1);
    }
    for (std::size_t i = 0; i != rn.size(); ++i) { coords[i] = rn[i]; }
    return T(1);
}

template <typename T>
std::string hexf(T v)
{
    char buf[64];
    std::snprintf(buf, sizeof buf, "%La", static_cast<long double>(v));
    return buf;
}

template <typename T, typename Chk>
void dump(std::string const& path, Log<T> const& log, Chk const& chk, int world)
{
    std::ofstream out(path);
    out << "world " << world << " iterations " << chk.results().size() << '\n';
    std::size_t b = 0;
    for (std::size_t k = 0; k != log.cuts.size(); ++k)
    {
        out << "iteration " << k << " local_calls " << (log.cuts[k] - b) << " calls " << chk.results()[k].calls() << " nz " << chk.results()[k].non_zero_calls() << '\n';
        for (std::size_t i = b; i != log.cuts[k]; ++i)
        {
            out << (k == 0 ? "p0" : "p");
            for (auto x : log.points[i]) { out << ' ' << hexf(x); }
            out << '\n';
        }
        b = log.cuts[k];
    }
}

template <typename T>
void run_config(int kind, std::vector<std::size_t> const& calls, std::size_t dims, std::string const& tag, std::string const& outdir, MPI_Comm comm)
{
    int rank = 0, world = 0;
    MPI_Comm_rank(comm, &rank);
    MPI_Comm_size(comm, &world);
    Log<T> log;
    Fn<T> fn{&log};
    std::string const path = outdir + "/" + tag + ".P" + std::to_string(world) + ".rank" + std::to_string(rank) + ".txt";
    if (kind == 0)
    {
        auto chk = hep::make_plain_chkpt<T>(std::mt19937(7));
        using Chk = decltype(chk);
        auto cb = [&log](MPI_Comm, Chk const&) { log.cuts.push_back(log.points.size()); return true; };
        dump<T>(path, log, hep::mpi_plain(comm, hep::make_integrand<T>(fn, dims), calls, chk, cb), world);
    }
    else if (kind == 1)
    {
        auto chk = hep::make_vegas_chkpt<T>(8, T(1.5), std::mt19937(7));
        using Chk = decltype(chk);
        auto cb = [&log](MPI_Comm, Chk const&) { log.cuts.push_back(log.points.size()); return true; };
        dump<T>(path, log, hep::mpi_vegas(comm, hep::make_integrand<T>(fn, dims), calls, chk, cb), world);
    }
    else
    {
        auto chk = hep::make_multi_channel_chkpt<T>(std::vector<T>{T(0), T(1), T(2)}, T(0), T(0.25), std::mt19937(7));
        using Chk = decltype(chk);
        auto cb = [&log](MPI_Comm, Chk const&) { log.cuts.push_back(log.points.size()); return true; };
        dump<T>(path, log, hep::mpi_multi_channel(comm, hep::make_multi_channel_integrand<T>(fn, dims, unit_map<T>, dims, 3), calls, chk, cb), world);
    }
}

void all_configs(std::string const& outdir, MPI_Comm comm)
{
    int world = 1;
    MPI_Comm_size(comm, &world);
    std::size_t const P = static_cast<std::size_t>(world);
    std::vector<std::vector<std::size_t>> const lists = {{10, 7}, {0, 1, 5}, {P, P + 1, P > 1 ? P - 1 : 1}, {257}, {3 * P, 1}};
    for (int kind = 0; kind != 3; ++kind)
    {
        for (std::size_t l = 0; l != lists.size(); ++l)
        {
            std::string const tag = "k" + std::to_string(kind) + "l" + std::to_string(l);
            run_config<double>(kind, lists[l], 2, tag + "d", outdir, comm);
            run_config<float>(kind, lists[l], 3, tag + "f", outdir, comm);
            run_config<long double>(kind, lists[l], 1, tag + "L", outdir, comm);
        }
    }
}

} // namespace

int main(int argc, char** argv)
{
#ifdef VERIF_SHIM_MPI_H
    if (argc < 3) { return 2; }
    int const P = std::atoi(argv[2]);
    shim::World world(P);
    std::string const outdir = argv[1];
    world.run([&](int) { all_configs(outdir, &world); });
    return (world.hang() || !world.errors().empty()) ? 1 : 0;
#else
    MPI_Init(&argc, &argv);
    if (argc < 2) { MPI_Finalize(); return 2; }
    all_configs(argv[1], MPI_COMM_WORLD);
    MPI_Finalize();
    return 0;
#endif
}
