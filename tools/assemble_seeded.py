#!/usr/bin/env python3
"""Assembles /verif/seeded/<ID>-m<k>/ from the staged sub-agent deliveries (patch.diff, demo.cpp, confirm.log, meta.json)."""
import json, os, shutil, sys
sys.path.insert(0, '/verif/seeded')
from needs import NEEDS
STAGE = '/tmp/seeded-staging'
OUT = '/verif/seeded'
res = {}
rp = os.path.join(OUT, 'detection.json')
if os.path.exists(rp):
    res = json.load(open(rp))
for (pid, k), (what, needs) in sorted(NEEDS.items()):
    # round 1: m1/m2 from the first staging area; round 2 (m3/m4) = m1/m2 of the second staging area
    src = os.path.join(STAGE if k <= 2 else (STAGE + '2' if k <= 4 else (STAGE + '3' if os.path.isdir(os.path.join(STAGE + '3', pid)) else STAGE + '4')), pid)
    round4 = k > 4 and src.startswith(STAGE + '4')
    if k > 6:
        src = os.path.join(STAGE + ('5' if k <= 8 else '6' if k <= 10 else '7'), pid)
    sk = ((k - 1) % 2) + 1
    if not os.path.isdir(src):
        continue  # staging area gone (fresh session): keep what is already assembled
    d = os.path.join(OUT, '%s-m%d' % (pid, k))
    os.makedirs(d, exist_ok=True)
    if not (k <= 2 and os.path.exists(os.path.join(d, 'patch.orig-63a117b.diff'))):
        shutil.copy(os.path.join(src, 'm%d.diff' % sk), os.path.join(d, 'patch.diff'))
    demo = 'demo%d.cpp' % sk
    shutil.copy(os.path.join(src, demo), os.path.join(d, 'demo.cpp'))
    clog = os.path.join(src, 'confirm%d' % sk, 'confirm.log')
    confirmed = os.path.exists(clog) and 'RESULT confirmed' in open(clog).read()
    if os.path.exists(clog):
        shutil.copy(clog, os.path.join(d, 'confirm.log'))
    mpi = 'mpi' in open(os.path.join(src, demo)).read().lower()
    meta = {
        "property": pid,
        "origin": "independent sub-agent given only the property record and a scratch worktree of /repo (no access to /verif)" + ("" if k <= 2 else ("; round 2: additionally told the round-1 changes and the reverted fixes and asked for different mechanisms" if k <= 4 else "; round " + ("7" if k > 10 else "6" if k > 8 else "5" if k > 6 else "4" if round4 else "3") + ": told the earlier rounds, pointed at less obvious files and at changes that need two cooperating sites")),
        "change": what,
        "needs_to_manifest": needs,
        "confirmed_by_me": confirmed,
        "what_i_ran": [
            "tools/confirm_seeded.sh (scratch worktree of /repo outside /repo and /verif): demo compiled and run on the original tree -> exit 0",
            "git apply patch.diff; meson setup + meson test -> 19/19 pass",
            ("mpicxx demo + mpirun --oversubscribe -np 3" if mpi else "g++ -std=c++11 -O1 demo") + " with the patch -> exit non-zero",
            "tools/try_patch.sh <check> patch.diff (scratch copy of /repo/include, VERIF_REPO) for the checks listed under detected_by",
        ],
        "detected_by": res.get('%s-m%d' % (pid, k), {}),
    }
    json.dump(meta, open(os.path.join(d, 'meta.json'), 'w'), indent=1)
print("assembled", len(NEEDS))
