#!/usr/bin/env python3
"""Assembles /verif/seeded/<ID>-m<k>/ from the staged sub-agent deliveries (patch.diff, demo.cpp, confirm.log, meta.json)."""
import json, os, shutil, sys
sys.path.insert(0, '/verif/seeded')
from needs import NEEDS
STAGE = '/tmp/seeded-staging'
OUT = '/verif/seeded'
res = {}
rp = os.path.join(OUT, 'detection.json')
if os.path.exists(rp):
    res = json.load(open(rp))
for (pid, k), (what, needs) in sorted(NEEDS.items()):
    src = os.path.join(STAGE, pid)
    d = os.path.join(OUT, '%s-m%d' % (pid, k))
    os.makedirs(d, exist_ok=True)
    shutil.copy(os.path.join(src, 'm%d.diff' % k), os.path.join(d, 'patch.diff'))
    demo = 'demo%d.cpp' % k
    shutil.copy(os.path.join(src, demo), os.path.join(d, 'demo.cpp'))
    clog = os.path.join(src, 'confirm%d' % k, 'confirm.log')
    confirmed = os.path.exists(clog) and 'RESULT confirmed' in open(clog).read()
    if os.path.exists(clog):
        shutil.copy(clog, os.path.join(d, 'confirm.log'))
    mpi = 'mpi' in open(os.path.join(src, demo)).read().lower()
    meta = {
        "property": pid,
        "origin": "independent sub-agent given only the property record and a scratch worktree of /repo (no access to /verif)",
        "change": what,
        "needs_to_manifest": needs,
        "confirmed_by_me": confirmed,
        "what_i_ran": [
            "tools/confirm_seeded.sh (scratch worktree of /repo outside /repo and /verif): demo compiled and run on the original tree -> exit 0",
            "git apply patch.diff; meson setup + meson test -> 19/19 pass",
            ("mpicxx demo + mpirun --oversubscribe -np 3" if mpi else "g++ -std=c++11 -O1 demo") + " with the patch -> exit non-zero",
            "tools/try_patch.sh <check> patch.diff (scratch copy of /repo/include, VERIF_REPO) for the checks listed under detected_by",
        ],
        "detected_by": res.get('%s-m%d' % (pid, k), {}),
    }
    json.dump(meta, open(os.path.join(d, 'meta.json'), 'w'), indent=1)
print("assembled", len(NEEDS))
