#!/usr/bin/env python3
"""tools/mkmut.py <name> <file under include/hep/mc> <old> <new> [count]  -> mutants/<name>.patch (unified diff against /repo)"""
import sys, os, difflib
name, rel, old, new = sys.argv[1:5]
cnt = int(sys.argv[5]) if len(sys.argv) > 5 else 1
p = os.path.join('/repo/include/hep/mc', rel)
s = open(p).read()
assert s.count(old) >= 1, "pattern not found"
if cnt == 1:
    assert s.count(old) == 1, "pattern occurs %d times" % s.count(old)
s2 = s.replace(old, new)
d = difflib.unified_diff(s.splitlines(True), s2.splitlines(True), 'a/include/hep/mc/' + rel, 'b/include/hep/mc/' + rel)
out = os.path.join(os.path.dirname(os.path.dirname(os.path.abspath(__file__))), 'mutants', name + '.patch')
open(out, 'w').write(''.join(d))
print(out)
