#!/usr/bin/env python3
"""Regenerates MANIFEST.json from vconfig.py (single source of truth for the registered checks)."""
import json, os, sys
HERE = os.path.dirname(os.path.dirname(os.path.abspath(__file__)))
sys.path.insert(0, HERE)
from vconfig import PROPS, NOT_APPLICABLE, ENGINES, NOTES

ids = [json.loads(l)["id"] for l in open(os.path.join(HERE, "properties.jsonl"))]
checks = []
for pid in ids:
    if pid not in PROPS:
        continue
    c = PROPS[pid]
    checks.append({
        "property_id": pid,
        "quick_cmd": "./vcheck %s --tier quick" % pid,
        "thorough_cmd": "./vcheck %s --tier thorough" % pid,
        "evidence_file": "/verif/evidence/%s.json" % pid,
        "replay_cmd_template": "./vcheck %s --replay {path}" % pid,
        "engine": c.get("engine", "rapidcheck-tape"),
        "level_claimed": {
            "category": c.get("level", "exploration"),
            "text": c["level_text"],
            "design_ref": c.get("design_ref", "DESIGN.md section 3, " + pid),
        },
        "level_note": c["level_note"],
        "technique": c["technique"],
    })
na = [dict(property_id=p, reason=r) for p, r in NOT_APPLICABLE.items() if p not in PROPS]
for pid in ids:
    if pid not in PROPS and pid not in NOT_APPLICABLE:
        na.append(dict(property_id=pid, reason="check not built yet in this revision of /verif (planned, see DESIGN.md section 3)"))
m = {
    "version": 1,
    "setup_cmd": "./vcheck --setup",
    "hooks": {
        "guard": "HEP_MC_VERIF",
        "enable": "no source hooks are needed: every observation point is a template parameter or public accessor; "
                  "harnesses compile /repo/include as it is (the guard name is reserved, nothing uses it)",
        "baseline_off_cmd": "meson test -C /repo/_build",
        "source_commits": [],
        "add_only": True,
    },
    "engines": ENGINES,
    "checks": checks,
    "not_applicable": na,
    "notes": NOTES,
}
json.dump(m, open(os.path.join(HERE, "MANIFEST.json"), "w"), indent=1)
print("MANIFEST.json: %d checks, %d not_applicable" % (len(checks), len(na)))
