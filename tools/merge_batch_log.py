#!/usr/bin/env python3
"""Merges the log of a batch of `tools/try_patch.sh <own check> seeded/<ID>-m<k>/patch.diff` runs (lines '== <ID> m<k>' followed by
vcheck's FAIL / VIOLATION lines) into seeded/detection.json. usage: merge_batch_log.py <log> [<ID>-m<k>=<verdict text> ...]"""
import json, os, re, sys
HERE = os.path.dirname(os.path.dirname(os.path.abspath(__file__)))
path = os.path.join(HERE, "seeded", "detection.json")
res = json.load(open(path)) if os.path.exists(path) else {}
cur = None
got = {}
for line in open(sys.argv[1]):
    m = re.match(r"== (C\d\d) m(\d+)", line)
    if m:
        cur = (m.group(1), "%s-m%s" % (m.group(1), m.group(2)))
        got[cur] = {"viol": False, "sig": ""}
        continue
    if cur is None:
        continue
    if line.startswith("VIOLATION property=%s" % cur[0]):
        got[cur]["viol"] = True
    s = re.search(r"sig=(\S+)", line)
    if s and not got[cur]["sig"]:
        got[cur]["sig"] = "sig=" + s.group(1)
for (chk, name), g in got.items():
    if os.path.isdir(os.path.join(HERE, "seeded", name)):
        res.setdefault(name, {})[chk] = ("caught " + g["sig"]).strip() if g["viol"] else "missed"
for extra in sys.argv[2:]:
    name, verdict = extra.split("=", 1)
    res.setdefault(name, {})[name.split("-")[0]] = verdict
json.dump(res, open(path, "w"), indent=1, sort_keys=True)
print("merged", len(got), "entries")
