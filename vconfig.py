"""Per-property configuration of the vcheck driver (units, budgets, floors, evidence texts)."""

COMMON_FLAGS = ["-std=gnu++17", "-g", "-O1", "-ffp-contract=off", "-fsanitize=address,undefined",
                "-fno-sanitize-recover=undefined", "-fno-omit-frame-pointer", "-Wall", "-Wextra",
                "-Wno-unused-parameter", "-Wno-sign-compare"]
FUZZ_FLAGS = ["-std=gnu++17", "-g", "-O1", "-ffp-contract=off", "-fsanitize=fuzzer,address,undefined",
              "-fno-sanitize-recover=undefined", "-fno-omit-frame-pointer", "-DVERIF_FUZZ"]

ASSUME_COMMON = [
    "g++ 12 / clang 14 with libstdc++ 12 on x86-64, round-to-nearest, no -ffast-math, -ffp-contract=off",
    "cases are a pure function of VERIF_SEED (rapidcheck seeds VERIF_SEED*1000+shard) and of the tree",
    "absence of a counterexample in the explored cases is not a proof",
]

PROPS = {}

PROPS["C16"] = dict(
    units=[dict(name="c16-mpi-shim-float", src="props/c04.cpp", floor_exempt=True, deps=["lib/shim/mpi.h"], flags=["-DVERIF_T=float", "-DVERIF_AS=16", "-I", "@HERE@/lib/shim", "-pthread"], libs=["-ldl", "-pthread"], quick=dict(shards=2, cases=600), thorough=dict(shards=4, cases=8000)),
           dict(name="c16-mpi-shim", src="props/c04.cpp", enum=True, floor_exempt=True, deps=["lib/shim/mpi.h"], flags=["-O2", "-DVERIF_T=double", "-DVERIF_AS=16", "-I", "@HERE@/lib/shim", "-pthread"], libs=["-ldl", "-pthread"], quick=dict(shards=2, cases=600), thorough=dict(shards=4, cases=8000)),
           dict(name="c16", src="props/c16.cpp", enum=True)],
    rule="case = (total, world) checked for every rank (world <= 2048) or 8 structural + 24 sampled ranks "
         "against a 128-bit integer tiling model; non-trivial: world >= 2 and total mod world != 0; "
         "distinct = distinct (total, world, rank set); enumeration: all total <= 300, world <= 64, all ranks",
    quick=dict(shards=4, cases=15000),
    thorough=dict(shards=16, cases=200000),
    floors={"rem=1": 0.02, "rem=world-1": 0.02, "total<world": 0.02},
    level_text="exhaustive enumeration of all (total, world, rank) with total <= 300, world <= 64 plus sampled "
               "pairs up to total < 2^40, world < 2^20 with forced remainders 0, 1, world-1, each compared with a "
               "128-bit integer tiling model (share floor/ceil, shares sum to total, before/after contiguous in rank "
               "order); exploration, not the symbolic statement over unbounded integers",
    level_note="trusted: the 128-bit model in props/c16.cpp; the share expression is a textual copy of the one in the "
               "three mpi_*.hpp integrators (the live expression is observed per rank under the MPI shim in C04)",
    technique="bounded exhaustive enumeration + rapidcheck generated (total, world, rank) against an integer tiling model",
    exhaustive_claim=True,
    exhaustive_space="all (total, world, rank) with total <= 300, world <= 64 (thorough tier: total <= 2100, world <= 512), rank < world; beyond it sampled",
    assumptions=ASSUME_COMMON + [
        "the per-rank share expression is copied textually from mpi_plain/mpi_vegas/mpi_multi_channel.hpp; "
        "the shares the integrators really use are observed under the MPI shim in C04",
        "size_t overflow of usage*before for totals beyond 2^40 is outside the sampled range",
    ],
)

PROPS["C09"] = dict(
    units=[dict(name="c09", src="props/c09.cpp", enum=True, fuzz=dict(seconds=60))],
    rule="case = numeric type x weight vector (1..64 channels; uniform / ones / dyadic / arbitrary / ratios 10^+-12 / "
         "one positive / increasing; zeros at front, end, middle or by mask; scaled) probed with canonical values "
         "forced through a scripted 64-bit engine: 0, largest below 1, every cumulative boundary +-2 ulp, random "
         "values, optionally a midpoint lattice of 2^10..2^16 values, real engines, multi_channel_iteration (selected channel valid, enabled and in the enabled list), and the same weights as integers times denorm_min / min (scale invariance); "
         "non-trivial: >= 2 positive weights (boundaries are always probed) ; distinct = distinct type + weight vector "
         "+ lattice size; inner_evaluations counts single selections",
    quick=dict(shards=8, cases=4500),
    thorough=dict(shards=16, cases=60000),
    floors={"has-zero-weight": 0.2, "zero-first": 0.05, "zero-last": 0.05, "lattice": 0.05, "in-iteration": 0.1},
    level_text="generated weight vectors x forced canonical numbers (every cumulative boundary and its floating-point "
               "neighbours, 0, largest value below 1, midpoint lattices) judged by an exact validity predicate "
               "(index < n, weight > 0) and a long-double interval model with tolerance 4 n eps; frequencies over a "
               "lattice must equal the weights within (2 + 8 n eps M)/M; exploration over generated inputs",
    level_note="trusted: the long double interval model and the scripted engine (std::generate_canonical of libstdc++ "
               "on a 2^64-range URBG is exact for payloads with <= 64 bits); at an exact boundary either adjacent "
               "enabled channel is accepted",
    technique="rapidcheck + bounded enumeration + libFuzzer over choice tapes; scripted-engine boundary forcing; interval model oracle",
    assumptions=ASSUME_COMMON + ["canonical numbers are in [0,1) as libstdc++ guarantees (it clamps 1.0)"],
)

PROPS["C13"] = dict(
    units=[dict(name="c13", src="props/c13.cpp", fuzz=dict(seconds=60))],
    rule="case = numeric type x sequence of 0..12 results made with create_result (calls 2..10^6, estimates of either "
         "sign over 14 (float) / 40 decades, relative errors 10^-k..10^3, results without non-zero calls), a generated "
         "permutation and the reversal, optionally 1-2 distributions with 1..12 bins; non-trivial: >= 2 results whose "
         "variances differ by > 10 %, or a result without non-zero calls, or distributions; distinct = distinct "
         "description (type + all results)",
    quick=dict(shards=8, cases=12000),
    thorough=dict(shards=16, cases=300000),
    floors={"has-empty-result": 0.1, "with-distributions": 0.1, "no-results": 0.01, "one-result": 0.03},
    level_text="generated result sequences compared with a long-double reference of the documented formulas "
               "(tolerance 16 m eps scaled by the conditioning of the (value, error) <-> (sum, sumsq) conversion), "
               "plus the laws: bounds, error not larger than any input error, order independence, identity / empty "
               "cases of equal weighting, chi^2/dof >= 0 / 0 / +inf, per-bin combination bit-identical to combining "
               "that bin's results alone; exploration over generated inputs",
    level_note="trusted: the long double model in props/c13.cpp; inputs are what the library reads back from "
               "create_result (value(), variance()), cases whose error tolerance exceeds 25 % are labelled "
               "ill-conditioned and only judged on estimate and counters",
    technique="rapidcheck + libFuzzer over choice tapes; reference model and algebraic laws",
    assumptions=ASSUME_COMMON,
)

PROPS["C08"] = dict(
    units=[dict(name="c08-mpi-shim", src="props/c04.cpp", floor_exempt=True, deps=["lib/shim/mpi.h"], flags=["-DVERIF_T=double", "-DVERIF_AS=8", "-I", "@HERE@/lib/shim", "-pthread"], libs=["-ldl", "-pthread"], quick=dict(shards=2, cases=600), thorough=dict(shards=4, cases=8000)),
           dict(name="c08", src="props/c08.cpp", deps=["lib/pwc.hpp"], fuzz=dict(seconds=60))],
    rule="3/4 of the cases: chain of 1..30 multi_channel_refine_weights calls (1..40 channels, generated weights incl. "
         "zeros and unnormalised, data all-zero / single / equal / uniform / over +-15 (float) or +-100 decades, beta in "
         "(0,1], minimum weight in [0,1/n)); 1/4: real hep::multi_channel run (1..6 piecewise-constant channels, user "
         "or default weights, 2..6 iterations of 0..320 calls, integrand zero below a threshold, optionally +inf / -inf / NaN above another, optionally with a distribution); non-trivial: >= 2 "
         "channels with unequal data and (floor active or disabled channel or chain >= 2), for runs: weights changed "
         "and (disabled channel or floor or an iteration without information); distinct = distinct description",
    quick=dict(shards=8, cases=12000),
    thorough=dict(shards=16, cases=200000),
    floors={"zero-information-step": 0.05, "floor-active": 0.1, "disabled-channel": 0.1, "chain>=2": 0.2,
            "run-level": 0.1, "run-iteration-without-information": 0.005},
    level_text="generated refinement chains and real multi-channel runs; invariants after every step (finite, >= 0, "
               "sum 1 within 4 n eps, zero stays zero, all-zero data leave the weights bit-identical) plus a long-double "
               "reference model of w_i W_i^beta -> normalise -> clamp to the minimum -> normalise ((8 + 2 n) eps relative, "
               "lower bound min/(1+n min)); exploration over generated inputs and histories",
    level_note="trusted: the long double model; positive weights and data are kept inside [10^-15,10^15] (float) / "
               "[10^-100,10^100] so that products do not underflow; an enabled channel whose datum is zero is only "
               "held to the vector invariants (the property says no more)",
    technique="rapidcheck + libFuzzer over choice tapes; reference model + invariants over refinement chains and real runs",
    assumptions=ASSUME_COMMON,
)

PROPS["C07"] = dict(
    units=[dict(name="c07-mpi-shim", src="props/c04.cpp", floor_exempt=True, deps=["lib/shim/mpi.h"], flags=["-DVERIF_T=double", "-DVERIF_AS=7", "-I", "@HERE@/lib/shim", "-pthread"], libs=["-ldl", "-pthread"], quick=dict(shards=2, cases=600), thorough=dict(shards=4, cases=8000)),
           dict(name="c07", src="props/c07.cpp", fuzz=dict(seconds=120))],
    rule="6/8 of the cases: chain of 1..50 vegas_refine_pdf calls (1..4 dims, 2..200 bins, alpha in [0,3], start grid "
         "uniform / user (ties, 1e-12 wide bins) / power law / adapted; per-dimension data all-zero, single spike, two "
         "spikes, wide-range reals, denormals, equal, log-uniform over up to the whole exponent range, smooth peak); 1/8: "
         "forced canonical numbers (0, 1, largest below 1, min, denorm_min, every b/bins +-1 ulp, random) through "
         "vegas_icdf and a scripted-engine vegas_iteration; 1/8: real hep::vegas runs (2..8 iterations, four peaked "
         "families, zero-call iterations); non-trivial: a refinement judged by the model moved the grid in a chain >= 2, "
         "a non-uniform grid for sampling, a run whose grid changed; distinct = distinct description",
    quick=dict(shards=8, cases=7500),
    thorough=dict(shards=16, cases=120000),
    floors={"zero-data-dimension": 0.1, "chain>=2": 0.2, "non-uniform-start": 0.3, "sampling-level": 0.05,
            "run-level": 0.05, "run-zero-iteration": 0.002},
    level_text="generated refinement chains, forced canonical numbers and real runs; partition invariant after every "
               "step (first 0, last 1, finite, non-decreasing), all-zero data leave a dimension bit-identical, and a "
               "long-double model of smoothing / damping: the cumulative importance at every new boundary k must be "
               "k x mean within 8 eps (bins (mean + max) + conditioning of the touching old bins); every sampled "
               "point inside its reported bin with weight prod(bins x width) within 4 d eps; exploration",
    level_note="trusted: the long double model (for T = long double an independent computation of equal precision); "
               "classes judged by the invariants only: heavy zero-width old bin at the boundary, smoothed ratio "
               "below the smallest normal number of T, denormal-scale data; data whose smoothing would overflow T are "
               "generated like any other class since the repair d822058 (label data-near-largest-finite)",
    technique="rapidcheck + libFuzzer over choice tapes; reference model in F-space + invariants over refinement chains, scripted-engine sampling",
    assumptions=ASSUME_COMMON,
)

PROPS["C03"] = dict(
    units=[dict(name="c03-mpi-shim", src="props/c04.cpp", floor_exempt=True, deps=["lib/shim/mpi.h"], flags=["-DVERIF_T=float", "-DVERIF_AS=3", "-I", "@HERE@/lib/shim", "-pthread"], libs=["-ldl", "-pthread"], quick=dict(shards=2, cases=600), thorough=dict(shards=4, cases=8000)),
           dict(name="c03-float", src="props/c03.cpp", deps=["lib/runners.hpp", "lib/pwc.hpp"], flags=["-DVERIF_T=float"]),
           dict(name="c03-double", src="props/c03.cpp", deps=["lib/runners.hpp", "lib/pwc.hpp"], flags=["-DVERIF_T=double"]),
           dict(name="c03-ldouble", src="props/c03.cpp", deps=["lib/runners.hpp", "lib/pwc.hpp"], flags=["-DVERIF_T=long double"])],
    rule="case = integrator (PLAIN / VEGAS / multi-channel on the PWC family) x one of the nine standard engines x "
         "configuration (1-3 dims, 5 integrand families, 0-3 distributions 1-d/2-d with names incl. empty, leading / "
         "trailing blanks, 200 chars; VEGAS bins 2..31, alpha 1.5 / 0 / 4/3 / random, default or user grid; 1-5 channels, "
         "beta, minimum weight, default or user weights with zeros) x 1..5 (thorough 7) iterations of 0..252 calls x "
         "target precision 0 or 10^-3..1 x text via serialize() or via the file the callback writes; for each case ALL "
         "2^(n-1) interruption sets are run (inner_evaluations); non-trivial: >= 2 iterations with calls and the state / "
         "results differ between first and last iteration; distinct = distinct description; one unit per numeric type",
    quick=dict(shards=3, cases=1500),
    thorough=dict(shards=5, cases=20000),
    floors={"interruptions>=2": 0.3, "via-file": 0.15, "early-stop": 0.02, "odd-distribution-name": 0.1,
            "engine:minstd_rand": 0.05, "engine:knuth_b": 0.05, "VEGAS": 0.2, "MULTI": 0.2, "user-state": 0.15},
    level_text="differential: for generated configurations every subset of the iteration boundaries is an interruption "
               "set; at each interruption the checkpoint passes through text (serialize() -> make_*_chkpt(istream), or "
               "the file written by callback_mode::silent_and_write_chkpt) and the final serialize() text must be "
               "byte-identical to the uninterrupted run's; exhaustive over the 2^(n-1) interruption sets of each "
               "generated configuration, exploration over configurations",
    level_note="trusted: the uninterrupted run as reference (its own correctness is C02/C19), text equality as the "
               "observable; engines are the nine typedefs of <random>; checkpoints are resumed with the same T, engine "
               "and integrand they were written with",
    technique="rapidcheck over choice tapes + exhaustive enumeration of interruption sets per case; differential against the uninterrupted run",
    assumptions=ASSUME_COMMON,
)

PROPS["C05"] = dict(
    units=[dict(name="c05", src="props/c05.cpp", fuzz=dict(seconds=120))],
    rule="case = numeric type x one of the nine standard engines (seeded, advanced by generated discards) x checkpoint "
         "kind (plain / vegas / multi-channel) x 0..4 results x 0..3 distributions (1..5 x 1..3 bins, names: plain, "
         "empty, inner / leading / trailing blanks, tab, up to 300 chars); every floating-point field from {1, 0, -0, raw "
         "bit pattern, max, lowest, denorm_min, min, 1+eps, generated reals}, counters up to 2^64-1, grids 1..4 dims x "
         "2..40 bins, 1..40 channels; zero-result checkpoints store the first grid / weights; non-trivial: >= 1 result "
         "and a field that is -0, an extreme or a value not representable in single precision, or an odd name with "
         "distributions; distinct = distinct description",
    quick=dict(shards=8, cases=7500),
    thorough=dict(shards=16, cases=120000),
    floors={"hard-value": 0.5, "odd-name": 0.1, "zero-results": 0.1, "with-distributions": 0.3,
            "engine:minstd_rand0": 0.05, "engine:knuth_b": 0.05, "engine:ranlux48": 0.05},
    level_text="round trip obj -> text -> obj' over generated checkpoints built through the public constructors: every "
               "public accessor is compared bit for bit (memcmp of the value bytes, 10 for x87 long double), counters "
               "and names exactly, generator() with operator==, all stored generators through text equality of "
               "serialize(obj'), the stream must not fail and must be consumed completely; exploration over inputs",
    level_note="trusted: memcmp on value bytes as equality; robustness against malformed text is not part of C05; "
               "names contain no newline (documented TODO of the library)",
    technique="rapidcheck + libFuzzer over choice tapes; round-trip oracle with bitwise accessor comparison",
    assumptions=ASSUME_COMMON + ["classic locale, default stream flags"],
)

PROPS["C15"] = dict(
    units=[dict(name="c15-mpi-shim", src="props/c04.cpp", floor_exempt=True, deps=["lib/shim/mpi.h"], flags=["-DVERIF_T=double", "-DVERIF_AS=15", "-I", "@HERE@/lib/shim", "-pthread"], libs=["-ldl", "-pthread"], quick=dict(shards=2, cases=600), thorough=dict(shards=4, cases=8000)),
           dict(name="c15-float", src="props/c15.cpp", deps=["lib/runners.hpp", "lib/pwc.hpp"], flags=["-DVERIF_T=float"]),
           dict(name="c15-double", src="props/c15.cpp", deps=["lib/runners.hpp", "lib/pwc.hpp"], flags=["-DVERIF_T=double"]),
           dict(name="c15-ldouble", src="props/c15.cpp", deps=["lib/runners.hpp", "lib/pwc.hpp"], flags=["-DVERIF_T=long double"])],
    rule="case = integrator x one of the nine standard engines x configuration (as C03: distributions, user grids / "
         "weights with disabled channels, alpha, beta, minimum weight) x history of 1..8 operations from {run 1-3 "
         "iterations of 0..122 calls, reload through text, rollback(k) with k in 0..n+1}; after EVERY operation all k in "
         "0..n+1 are tried on copies (n <= 6; inner_evaluations) incl. resume of the rest; non-trivial: the history "
         "contains a rollback to 0 < k < n, or a reload before a rollback, or rollback(0) of an adaptive checkpoint with "
         "user state; distinct = distinct description; one unit per numeric type",
    quick=dict(shards=3, cases=1200),
    thorough=dict(shards=5, cases=20000),
    floors={"rollback-inner-k": 0.1, "reload-before-rollback": 0.1, "rollback0-user-state": 0.02, "VEGAS": 0.2, "MULTI": 0.2,
            "engine:minstd_rand": 0.05},
    level_text="model-based (stateful) generation: the model is the list of calls of the iterations in the checkpoint; "
               "after every operation the serialize() text must equal the text recorded after the corresponding prefix "
               "of one fresh uninterrupted run over the model's list; every k in 0..n+1 is enumerated on copies after "
               "every step: rollback(k) text equals the prefix text, rollback(n) changes nothing, k > n throws "
               "std::out_of_range and changes nothing, rollback(k) + resume reproduces the original text; exploration "
               "over histories, exhaustive over k per visited state",
    level_note="trusted: the fresh uninterrupted run as reference and text identity as observable (the text contains "
               "every result, grid, weight and all generators)",
    technique="rapidcheck stateful (model-based) histories over choice tapes + enumeration of all k per state; reference = fresh run over the model's list",
    assumptions=ASSUME_COMMON,
)

PROPS["C14"] = dict(
    units=[dict(name="c14-mpi-shim", src="props/c04.cpp", floor_exempt=True, deps=["lib/shim/mpi.h"], flags=["-DVERIF_T=float", "-DVERIF_AS=14", "-I", "@HERE@/lib/shim", "-pthread"], libs=["-ldl", "-pthread"], quick=dict(shards=2, cases=600), thorough=dict(shards=4, cases=8000)),
           dict(name="c14-mpi-shim-ldouble", src="props/c04.cpp", floor_exempt=True, deps=["lib/shim/mpi.h"], flags=["-DVERIF_T=long double", "-DVERIF_AS=14", "-I", "@HERE@/lib/shim", "-pthread"], libs=["-ldl", "-pthread"], quick=dict(shards=2, cases=600), thorough=dict(shards=4, cases=8000)),
           dict(name="c14", src="props/c14.cpp", deps=["lib/pwc.hpp", "lib/exactsum.hpp"])],
    rule="case = numeric type x N (1..10^5 quick, ..10^7 thorough) x one of 10 value patterns (one large then many "
         "eps/4, alternating with cancellation, geometric decay over 40 binades, random magnitudes over 20 decades with "
         "random signs, ascending, descending, equal 0.1, zeros with rare large, subnormal values, ...) optionally negated, scaled by "
         "10^-10..10^10 x integrator (PLAIN weight 1 / VEGAS uniform or power-law grid / multi-channel PWC) x "
         "distribution (none / 1-d / 2-d, all values into one bin or round robin); non-trivial: N >= 1000 AND the naive "
         "left-to-right sum of the same values (computed by the harness) lies outside the bound, i.e. the case can tell "
         "compensated from naive summation; distinct = distinct description",
    quick=dict(shards=8, cases=750),
    thorough=dict(shards=16, cases=1500),
    floors={"separates-naive-from-compensated": 0.08, "dist-1d": 0.15, "dist-2d": 0.15, "negated": 0.15, "two-distributions": 0.08},
    level_text="generated adversarial sequences through real iterations; the reported sum (and every distribution bin "
               "sum after the documented 1/area scaling) is compared with the exact sum of the very values the library "
               "adds, computed with non-overlapping expansions: |sum - exact| <= (4 eps + 4 N eps^2) sum|v| (Kahan's "
               "bound with a factor 2 of slack); exploration over generated inputs",
    level_note="trusted: the expansion accumulator (Shewchuk / fsum) in lib/exactsum.hpp; v = f*w is recomputed in the "
               "integrand by the same single multiplication; sum_of_squares is not compensated and not claimed",
    technique="rapidcheck over choice tapes; exact-sum oracle with the Kahan bound, naive-sum discriminator for non-triviality",
    assumptions=ASSUME_COMMON,
)

PROPS["C02"] = dict(
    units=[dict(name="c02-mpi-shim", src="props/c04.cpp", floor_exempt=True, deps=["lib/shim/mpi.h"], flags=["-DVERIF_T=double", "-DVERIF_AS=2", "-I", "@HERE@/lib/shim", "-pthread"], libs=["-ldl", "-pthread"], quick=dict(shards=2, cases=600), thorough=dict(shards=4, cases=8000)),
           dict(name="c02", src="props/c02.cpp", deps=["lib/pwc.hpp", "lib/exactsum.hpp"])],
    rule="case = numeric type x integrator (PLAIN 1-4 dims / VEGAS 1-4 dims, 2-16 bins, uniform or user grid, adapting / "
         "multi-channel PWC 1-5 channels with generated weights incl. zeros) x 1..4 iterations with N from {0..3, odd, "
         "0..2000, 10..310} x one of 9 dictated value patterns (all zero, rare non-zero, alternating sign, random sign and "
         "magnitude, zero with probability 0.6, position dependent, zero region, a few NaN/+-inf, constant) x scale "
         "10^-4..10^4, optionally a distribution; every iteration of the run is checked; non-trivial: zero and non-zero "
         "evaluations, some N >= 2 and (for adaptive integrators) a non-uniform grid / unequal weights; 1/8 of the cases "
         "instead check value / variance / error of results constructed with N up to 2^53 (around 2^32, N(N-1) around "
         "2^63) against the documented formulas; distinct = distinct description",
    quick=dict(shards=8, cases=7500),
    thorough=dict(shards=16, cases=120000),
    floors={"mixed-zero-nonzero": 0.2, "some-non-finite": 0.04, "N<=3": 0.15, "VEGAS": 0.15, "MULTI": 0.15, "formula-layer": 0.05, "N>2^32": 0.02},
    level_text="independent recomputation from the call log of an instrumented integrand (f per call; weight, VEGAS bins, "
               "channel and coordinates only for non-zero f): number of evaluations = N = calls(); non_zero_calls and "
               "finite_calls exact; sum within the Kahan bound of the exact sum of f*w; sum_of_squares and the VEGAS "
               "per-bin / multi-channel per-channel adjustment data within (n+4..6) eps of a compensated long-double sum "
               "of non-negative terms; value / variance / error equal the documented formulas applied to the reported "
               "sums; the multi-channel weight equals jacobian / sum alpha_j p_j; exploration over generated inputs",
    level_note="trusted: the call log and the long double / exact-expansion recomputation; the densities are recomputed "
               "from the logged coordinates with the family's own function (the map is harness code); slots of disabled "
               "channels are documented as ignored and not judged",
    technique="rapidcheck over choice tapes; logging integrand + independent recomputation oracle",
    assumptions=ASSUME_COMMON,
)

PROPS["C06"] = dict(
    units=[dict(name="c06-mpi-shim", src="props/c04.cpp", floor_exempt=True, deps=["lib/shim/mpi.h"], flags=["-DVERIF_T=double", "-DVERIF_AS=6", "-I", "@HERE@/lib/shim", "-pthread"], libs=["-ldl", "-pthread"], quick=dict(shards=2, cases=600), thorough=dict(shards=4, cases=8000)),
           dict(name="c06", src="props/c06.cpp", deps=["lib/pwc.hpp"])],
    rule="case = numeric type x integrator x 2..5 iterations of 10..2000 calls x integrand family (4) x 0..2 distributions "
         "(1-d, 2-d) x poison set: shape {empty, first call, last call, one in the middle, all, 2 %, probability p} x kind "
         "{mixed, NaN, +inf, -inf} x source {return value, distribution datum (per datum), multi-channel weight: NaN / inf "
         "jacobian, all densities zero, NaN / inf density of a disabled channel}; after every iteration also the variance-weighted and the equally weighted combination of the results so far; paired run zeroes exactly the poisoned data (sane map); non-trivial: an adaptive "
         "integrator with an iteration that has both poisoned and finite non-zero evaluations, or a poisoned distribution "
         "datum; distinct = distinct description",
    quick=dict(shards=8, cases=3600),
    thorough=dict(shards=16, cases=60000),
    floors={"poisoned-return-value": 0.3, "poisoned-distribution-datum": 0.1, "poisoned-weight": 0.05, "all-poisoned": 0.05,
            "VEGAS": 0.2, "MULTI": 0.2},
    level_text="metamorphic pairing over generated poison sets: after every iteration the poisoned run's sums, sums of "
               "squares, finite counts (also per bin), adjustment data, grid / channel weights and the generator are "
               "bit-identical to the run in which exactly the poisoned data are zero; non_zero_calls differs by exactly "
               "the number of poisoned evaluations; every reported number is finite; exploration over inputs and histories",
    level_note="trusted: the pairing rule (per datum; the paired run of a poisoned weight uses the sane map and a zero "
               "integrand value); finite values whose square overflows are outside the property and not generated; slots "
               "of disabled channels are not judged",
    technique="rapidcheck over choice tapes; metamorphic paired-run oracle with bit identity",
    assumptions=ASSUME_COMMON,
)

PROPS["C11"] = dict(
    units=[dict(name="c11-mpi-shim", src="props/c04.cpp", floor_exempt=True, deps=["lib/shim/mpi.h"], flags=["-DVERIF_T=float", "-DVERIF_AS=11", "-I", "@HERE@/lib/shim", "-pthread"], libs=["-ldl", "-pthread"], quick=dict(shards=2, cases=600), thorough=dict(shards=4, cases=8000)),
           dict(name="c11", src="props/c11.cpp", deps=["lib/pwc.hpp"], compilers=["g++", "clang++"], fuzz=dict(seconds=60))],
    rule="case = numeric type x 1..3 distributions (1-d / 2-d, 1..12 bins per axis, ranges unit / negative / quarter "
         "steps / tiny 10^-30 (float 10^-8) / huge 10^30 (float 10^8) / narrow far from 0 / generated); (A) every "
         "candidate coordinate - each edge min + k size and its two neighbours, interior points, x_max, just below x_min, "
         "far outside with quotients 2^31..2^100 on both sides, max, lowest, +-inf, NaN, generated - is fed one call at a "
         "time (x candidates with interior y, then y candidates); (B) 2/3 of the cases: a 20..420 call PLAIN / VEGAS / "
         "multi-channel iteration compared bin by bin with separate integrations; built with g++ and clang++; non-trivial: "
         "a coordinate on an edge or outside the range and >= 2 bins filled; distinct = distinct description",
    quick=dict(shards=4, cases=1800),
    thorough=dict(shards=8, cases=40000),
    floors={"differential": 0.25, "2d": 0.2, "several-distributions": 0.3},
    level_text="(A) placement model: floor((x - min) / size) in long double decides the bin (x fastest, then y); a "
               "coordinate within 4 eps (|x| + |min|) of an edge may go to either neighbour, anything outside, +-inf and "
               "NaN to no bin; the value arrives as value / area; mid-points lie inside their bins; (B) differential: "
               "each bin's sum, sum of squares, value, variance equal those of integrating f x 1[bin] / area with the "
               "same random numbers (16-64 eps with conditioning), calls equal the iteration's, bins x areas add up to "
               "the integrand restricted to the range; exploration over generated inputs",
    level_note="trusted: the long double floor model and the indicator integrands of the harness; built with both "
               "compilers because float -> integer conversion of out-of-range values differs between them",
    technique="rapidcheck (g++ and clang++ builds) + libFuzzer over choice tapes; placement model + differential against separate integrations",
    assumptions=ASSUME_COMMON,
)

PROPS["C10"] = dict(
    units=[dict(name="c10-mpi-shim", src="props/c04.cpp", floor_exempt=True, deps=["lib/shim/mpi.h"], flags=["-DVERIF_T=double", "-DVERIF_AS=10", "-I", "@HERE@/lib/shim", "-pthread"], libs=["-ldl", "-pthread"], quick=dict(shards=2, cases=600), thorough=dict(shards=4, cases=8000)),
           dict(name="c10-float", src="props/c10.cpp", flags=["-DVERIF_T=float"]),
           dict(name="c10-double", src="props/c10.cpp", flags=["-DVERIF_T=double"]),
           dict(name="c10-ldouble", src="props/c10.cpp", flags=["-DVERIF_T=long double"])],
    rule="case = engine (nine standard engines; synthetic ranges of size 2, 3, 2^7, 2^14, 2^16+1, 2^31-1, 2^32-5, "
         "[1,2^32-1], [1,2^16-1], [5,1004], 2^53, 2^63, 2^64; independent_bits_engine with 7 / 14 / 23 bits) x integrator x "
         "1..6 dims x 0..500 calls x value pattern (constant, all zero, alternating zero, NaN/zero/negative, inf, sign "
         "changing) x projector use x explicit weight requests x grid (uniform / power) or weights incl. zeros; one unit "
         "per numeric type; non-trivial: >= 2 calls and (a multi-draw type/engine combination or zero / non-finite values); "
         "distinct = distinct description",
    quick=dict(shards=3, cases=4500),
    thorough=dict(shards=5, cases=100000),
    floors={"multi-draw": 0.2, "zero-or-non-finite-values": 0.3, "stored-generator": 0.15, "MULTI": 0.2, "VEGAS": 0.2},
    level_text="invariant + agreement with the predictor: a counting wrapper read inside the integrand shows exactly "
               "(i+1) x numbers-per-call x k raw draws at call i whatever earlier calls returned; k (measured on a probe "
               "URBG) equals hep::random_number_usage for the engine, a wrapped engine and a reference type; the generator "
               "after an iteration, and the one stored in the checkpoint of hep::plain / vegas / multi_channel, equals a "
               "copy advanced by discard(calls x numbers x k); exploration over generated configurations",
    level_note="trusted: the counting wrapper and std::generate_canonical of libstdc++ 12 as the consumer being measured; "
               "synthetic engines are harness code with arbitrary [min, max]",
    technique="rapidcheck over choice tapes; counting-engine invariant, predictor agreement, discard differential",
    assumptions=ASSUME_COMMON,
)

PROPS["C12"] = dict(
    units=[dict(name="c12-mpi-shim", src="props/c04.cpp", floor_exempt=True, deps=["lib/shim/mpi.h"], flags=["-DVERIF_T=double", "-DVERIF_AS=12", "-I", "@HERE@/lib/shim", "-pthread"], libs=["-ldl", "-pthread"], quick=dict(shards=2, cases=600), thorough=dict(shards=4, cases=8000)),
           dict(name="c12", src="props/c12.cpp", deps=["lib/runners.hpp", "lib/pwc.hpp"])],
    rule="case = numeric type x integrator (generated configuration as in C03, mt19937) x iteration list of 0..8 entries "
         "(calls 0..2 or 4..304) x one of three layers: (i) logging callback returning false at invocation 1..n+1 or never, "
         "start checkpoint with 0..2 earlier results; (ii) built-in callback, one of the four modes, target 0, integrand "
         "identically zero / constant / alternating +-1 (exact zero mean) / NaN everywhere / zero-or-inf / ordinary; (iii) "
         "built-in callback with target 10^-3..1 on ordinary integrands, optionally resumed after 1-2 iterations, magnitudes 10^+-(max_exponent10/4), an integrand vanishing on 90 % of the domain (no information in short iterations), a campaign resumed after 5e9 calls; non-trivial: "
         "(i) stop position strictly between 1 and n, (ii) degenerate integrand with >= 2 iterations, (iii) judged (not "
         "boundary-ambiguous) with >= 2 iterations; distinct = distinct description; the MPI forms are exercised in C04",
    quick=dict(shards=8, cases=4500),
    thorough=dict(shards=16, cases=100000),
    floors={"logging-callback": 0.2, "builtin-target-zero": 0.2, "builtin-positive-target": 0.2, "degenerate-integrand": 0.15,
            "resumed-checkpoint": 0.1},
    level_text="history invariant from the invocation log of a user callback (once per iteration, exactly the results so "
               "far and prefix-identical, run ends right after the first false, returned checkpoint = last one shown, "
               "iterations in list order); built-in callback with target 0 performs every requested iteration for all "
               "four modes and degenerate integrands; with a positive target the stop position equals the first j at "
               "which the long-double variance-weighted combination has relative error <= target (cases within max(1e-6, "
               "256 eps kappa) of the target or with NaN are not judged); exploration over generated histories",
    level_note="trusted: the long double combination model (C13's); a NaN relative error with a positive target is "
               "boundary-ambiguous by the wording of the property and not judged",
    technique="rapidcheck over choice tapes; logging-callback history invariant + stop-position reference model",
    assumptions=ASSUME_COMMON,
)

PROPS["C17"] = dict(
    units=[dict(name="c17", src="props/c17.cpp", deps=["lib/pwc.hpp"])],
    rule="case = numeric type x integrator x 0..60 calls x behaviour pattern per call (constant, zero, alternating, zero but "
         "asks for the weight, projector on some calls, NaN / zero / inf, negative with weight requests) x with / without "
         "distribution x engine: scripted 64-bit engine whose canonical numbers are 0, the largest value below 1, the raw "
         "output that rounds to 1, or generated - or mt19937; PLAIN / VEGAS: 1-4 dims, uniform or power grid, optionally with zero-width or one-ulp-wide bins; multi-channel: "
         "1-6 PWC channels, weights incl. zeros, densities early or late, padded coordinate buffer; non-trivial: "
         "multi-channel with a disabled channel and both zero and non-zero integrand values, or an extreme canonical "
         "number; distinct = distinct description",
    quick=dict(shards=8, cases=7500),
    thorough=dict(shards=16, cases=120000),
    floors={"disabled-channel": 0.1, "extreme-canonical-number": 0.3, "MULTI": 0.25, "VEGAS": 0.2, "PLAIN": 0.2},
    level_text="invariant over the event log of an instrumented integrand and channel map: PLAIN one call per point, "
               "coordinates in [0,1), weight 1; VEGAS coordinates in [0,1], bin < bins, point inside its bin; "
               "multi-channel per call: coordinates request (enabled channel, full ascending enabled list, random numbers "
               "in [0,1), buffer sizes) -> integrand (same channel / buffers / numbers) -> densities request iff the value "
               "is non-zero or the weight was asked for directly or through the projector, with the same channel, numbers "
               "and buffer objects whose contents are untouched in between, never twice; exploration over generated inputs",
    level_note="trusted: the event log (addresses and FNV hashes of buffer contents); libstdc++'s generate_canonical "
               "clamps 1.0, so [0,1) is what the library can rely on",
    technique="rapidcheck over choice tapes; event-log protocol invariant with a scripted engine",
    assumptions=ASSUME_COMMON,
)

PROPS["C19"] = dict(
    units=[dict(name="c19-mpi-shim", src="props/c04.cpp", floor_exempt=True, deps=["lib/shim/mpi.h"], flags=["-DVERIF_T=double", "-DVERIF_AS=19", "-I", "@HERE@/lib/shim", "-pthread"], libs=["-ldl", "-pthread"], quick=dict(shards=2, cases=600), thorough=dict(shards=4, cases=8000)),
           dict(name="c19", src="props/c19.cpp", deps=["lib/pwc.hpp"])],
    rule="case = numeric type x VEGAS (1-3 dims, 2-25 bins, alpha from {1.5, 0, 0.5, 3, random}, default or user grid) or "
         "multi-channel (1-6 PWC channels, beta, minimum weight, default or user weights incl. zeros / unnormalised) x 1..6 "
         "iterations of 0..2 or 10..160 calls x 4 integrand families x scripted engine (all canonical numbers known) x "
         "uninterrupted or resumed through text at a generated set of boundaries; every logged call is checked "
         "(inner_evaluations); non-trivial: >= 2 iterations whose state changed, or user supplied state; distinct = "
         "distinct description; shim-MPI execution is covered by C04",
    quick=dict(shards=8, cases=3600),
    thorough=dict(shards=16, cases=60000),
    floors={"user-state": 0.3, "resumed": 0.3, "VEGAS": 0.3, "MULTI": 0.3},
    level_text="history invariant: results[0] records the user grid / the user weights through the documented "
               "normalisation / the uniform default (bit for bit); results[k+1] and the checkpoint's next state are "
               "bit-identical to the library's refinement of results[k] under the checkpoint's alpha / beta / minimum "
               "weight; and the recorded state is the state sampled with: for every call the bin, point and weight equal an "
               "independent inverse-CDF model of the recorded grid at the known random number, resp. the channel is the "
               "interval of the recorded cumulative weights containing the known selection number and the weight is "
               "jacobian / sum alpha_j p_j with the recorded alpha; exploration over generated histories",
    level_note="trusted: the library's refinement functions as the definition of 'the refinement' (their correctness is "
               "C07 / C08), the scripted engine, the 10-line inverse-CDF model and the harness's own channel maps",
    technique="rapidcheck over choice tapes; scripted engine + history invariant on recorded vs sampled state",
    assumptions=ASSUME_COMMON,
)

PROPS["C20"] = dict(
    units=[dict(name="c20-mpi-shim", src="props/c04.cpp", floor_exempt=True, deps=["lib/shim/mpi.h"], flags=["-DVERIF_T=float", "-DVERIF_AS=20", "-I", "@HERE@/lib/shim", "-pthread"], libs=["-ldl", "-pthread"], quick=dict(shards=2, cases=600), thorough=dict(shards=4, cases=8000)),
           dict(name="c20", src="props/c20.cpp", deps=["lib/runners.hpp", "lib/pwc.hpp"], fuzz=dict(seconds=60))],
    rule="2/3 of the cases: one generated run (PLAIN / VEGAS / multi-channel with 1..40 PWC channels; weight pattern equal / "
         "one large / increasing / ties / disabled / two minimal and many distinct / generated; integrand ordinary, "
         "identically zero, constant, NaN everywhere, zero-or-inf; 0..4 iterations; target 0 or 10^-2..1) executed under all "
         "four callback modes with std::cout captured; 1/3: multi_channel_summary / weight_info on a checkpoint assembled "
         "from a valid generated weight vector (1..40 channels, 1/3 of them >= 13); non-trivial: multi-channel with >= 3 "
         "channels and unequal weights, or a degenerate integrand; distinct = distinct description; shim-MPI modes in C04",
    quick=dict(shards=8, cases=2400),
    thorough=dict(shards=16, cases=40000),
    floors={"run-layer": 0.4, "direct-layer": 0.2, "degenerate-integrand": 0.1, "many-channels": 0.02, "abbreviated-summary": 0.01,
            "positive-target": 0.1},
    level_text="differential across the four callback modes: the serialize() text of the returned checkpoint and of every "
               "checkpoint handed to the callback is byte-identical, silent modes print nothing, writing modes leave a file "
               "equal to that text, std::cout stays good and the printing code runs under ASan / UBSan; structural checks of "
               "the weight summary: channels() is a weight-sorted permutation, every printed channel index is valid and "
               "carries the printed weight within print precision, wmin <= w <= wmax, the minimal-weight list is exactly the "
               "set with the minimal expected call count; exploration over generated configurations",
    level_note="trusted: text identity as observable; the summary is parsed from its printed form (6 significant digits)",
    technique="rapidcheck + libFuzzer over choice tapes; differential across callback modes + structural output checks under sanitizers",
    assumptions=ASSUME_COMMON,
)

PROPS["C01"] = dict(
    units=[dict(name="c01-mpi-shim", src="props/c04.cpp", floor_exempt=True, deps=["lib/shim/mpi.h"], flags=["-DVERIF_T=double", "-DVERIF_AS=1", "-I", "@HERE@/lib/shim", "-pthread"], libs=["-ldl", "-pthread"], quick=dict(shards=2, cases=600), thorough=dict(shards=4, cases=8000)),
           dict(name="c01", src="props/c01.cpp", deps=["lib/pwc.hpp"])],
    rule="case = numeric type x integrand (sum of 1..3 multilinear terms prod_k (a_k + b_k x_k), coefficients of either sign, "
         "1/5 of the cases f == 1) x one of: PLAIN (1-4 dims, lattice M^d); VEGAS (1-3 dims, 2..128 bins, 1-4 sub-points per "
         "bin, grid uniform / user incl. zero-width bins / power law / adapted by 1-6 real refinements, through "
         "vegas_iteration or hep::vegas); multi-channel PWC (1-6 channels, K in {1,2,4,8}, <= 5 cells, <= 2 dims, common "
         "jacobian factor 1 / 1+x / 2, densities early or late) either E2E with dyadic weights k_i/2^q (zeros allowed) and "
         "the channel selection on a midpoint lattice too, or point level with arbitrary / refined weights and the "
         "selection number at the midpoint of each enabled channel's interval; the scripted engine plays the complete "
         "lattice (inner_evaluations = integrand calls); non-trivial: non-constant integrand and a non-uniform grid (bin "
         "width off by > 0.1 %) resp. >= 2 enabled channels with different weights; distinct = distinct description",
    quick=dict(shards=8, cases=1200),
    thorough=dict(shards=16, cases=8000),
    floors={"VEGAS": 0.25, "MULTI": 0.25, "PLAIN": 0.1, "non-uniform-grid": 0.15, "disabled-channel": 0.05, "common-jacobian-factor": 0.1,
            "uncovered-cells": 0.02, "vegas-high-dimension": 0.02, "with-distribution": 0.25},
    level_text="noise-free quadrature oracle: the integrators are driven by a scripted engine that plays a complete "
               "midpoint lattice in the space of the random numbers, so the estimate must equal the closed-form integral "
               "of the multilinear integrand (over the cells covered by an enabled channel) within 64 eps (d + channels) "
               "sum_terms prod(|a_k| + |b_k|); f == 1 checks measure preservation alone; exploration over generated grids, "
               "channel sets, weights and integrands",
    level_note="trusted: the closed form, the scripted engine and the harness's PWC maps (normalised by construction); "
               "channel maps outside the PWC family have no exact oracle and are not used here",
    technique="rapidcheck over choice tapes; scripted lattice engine + closed-form integral oracle",
    assumptions=ASSUME_COMMON,
)

PROPS["C18"] = dict(
    units=[dict(name="c18-mpi-shim", src="props/c04.cpp", floor_exempt=True, deps=["lib/shim/mpi.h"], flags=["-DVERIF_T=double", "-DVERIF_AS=18", "-I", "@HERE@/lib/shim", "-pthread"], libs=["-ldl", "-pthread"], quick=dict(shards=2, cases=600), thorough=dict(shards=4, cases=8000)),
           dict(name="c18", src="props/c18.cpp", deps=["lib/runners.hpp", "lib/pwc.hpp"], nosan=True, libs=["-ldl"])],
    level="fault_enumeration",
    rule="case = one workload: integrator (generated configuration, float or double, mt19937 or minstd_rand, with / without "
         "distributions, VEGAS up to 6 dims x 128 bins so that checkpoints range from ~200 bytes to ~200 kB) x 1..4 "
         "iterations x optionally a checkpoint file left by an earlier run that is resumed; a counting pass records every "
         "tracked file-system call of the writing callback, then EVERY position is a crash point (child SIGKILLed on entry), "
         "write/writev positions additionally after 0, 1, half, all-1 bytes (thorough: every prefix for checkpoints <= 4 kB, "
         "64 sampled prefixes otherwise), plus a non-fatal short write at every write, plus a write error (EIO once / ENOSPC until the callback returns / half the bytes then ENOSPC) at every write, followed by a kill after that callback or by nothing; file names with and without extension, hidden, ending in .tmp or ~; inner_evaluations = crash / fault "
         "experiments; non-trivial: a crash while a complete checkpoint was on disk; distinct = distinct workload description",
    quick=dict(shards=8, cases=60),
    thorough=dict(shards=16, cases=300),
    floors={"crash-with-complete-file-at-stake": 0.35, "file-from-earlier-run": 0.08, "larger-than-stream-buffer": 0.08},
    exhaustive_claim=False,
    level_text="fault enumeration with an in-binary interposer on fopen/fopen64/open*/write/writev/fclose/close/rename/unlink/"
               "remove/ftruncate: exhaustive over the positions of the tracked call sequence of each generated workload "
               "(process kill on entry, and after byte prefixes of each write), plus short writes; after every kill the file "
               "is absent only if nothing complete was there before, otherwise byte-identical to the previous or the new "
               "checkpoint, and resuming from it reproduces the undisturbed final text",
    level_note="fault model: process kill at system-call granularity and byte prefixes of a write; power loss (no fsync) is "
               "out of scope; the interposer sees the calls libstdc++ 12 makes (fopen64, write, writev, fclose, rename); a "
               "tree using another I/O path shows no tracked call in the counting pass and fails the check as broken",
    technique="rapidcheck-generated workloads + exhaustive crash-point enumeration via syscall interposition, fork and SIGKILL",
    engine="crash-interposer",
    assumptions=ASSUME_COMMON + ["built without sanitizers: their interceptors would shadow the interposed symbols"],
)

_SHIM = ["-I", "@HERE@/lib/shim", "-pthread"]
PROPS["C04"] = dict(
    units=[dict(name="c04-float", src="props/c04.cpp", enum=True, flags=["-DVERIF_T=float"] + _SHIM, libs=["-ldl", "-pthread"]),
           dict(name="c04-double", src="props/c04.cpp", flags=["-DVERIF_T=double"] + _SHIM, libs=["-ldl", "-pthread"]),
           dict(name="c04-ldouble", src="props/c04.cpp", flags=["-DVERIF_T=long double"] + _SHIM, libs=["-ldl", "-pthread"])],
    engine="mpi-shim",
    aux=[dict(script="tools/mpi_crosscheck.py", tier="both")],
    rule="case = world size P (1..33) x generated schedule (arrival order of the ranks per scheduling round, reduction "
         "order per collective as a permutation folded left-to-right or pairwise as a tree) x integrator (generated "
         "configuration: distributions, user grids / weights incl. disabled channels) x 1..4 iterations with calls from {0, "
         "1, P-1, P, P+1, primes, multiples of P, 0..3000} x engine (mt19937, minstd_rand, ranlux24, synthetic range 2^14, "
         "independent_bits_engine<7>) x built-in mpi_callback mode (silent / verbose / writing, 1/6 with an unwritable path) x target 0 or 10^-2..1 x communicator = the world or a slice of a larger world; every case is preceded by a run of other dimensions through the same template instantiations; float: 2^24 + 3 calls enumerated; one "
         "unit per numeric type; non-trivial: P >= 2 and some calls not divisible by P or below P; inner_evaluations = "
         "points compared with the serial run; distinct = distinct description",
    quick=dict(shards=3, cases=900),
    thorough=dict(shards=5, cases=12000),
    floors={"uneven-split": 0.4, "calls<P": 0.2, "P>=9": 0.1, "positive-target": 0.1, "with-distributions": 0.3, "VEGAS": 0.2, "MULTI": 0.2,
            "engine:range 2^14": 0.08, "engine:independent_bits<7>": 0.08, "non-finite-region": 0.08},
    level_text="differential against the serial integrator from the same checkpoint: for every iteration k the "
               "concatenation in rank order of the per-rank point logs equals bit for bit the point log of the serial "
               "*_iteration run from the generator (rollback(k) on a copy) and the grid / weights the MPI checkpoint records "
               "for k; per-rank shares are floor/ceil and sum to the calls; counters (also per bin) equal; the stored "
               "generator equals the serial one; compensated sums agree within 4 (P+2) eps, uncompensated sums (squares, "
               "adjustment data) within (n + 4 (P+2)) eps; result k+1 records the refinement of result k; all ranks return byte-identical checkpoints and issue "
               "the same sequence of (collective, count, datatype) - a rank returning while others wait is reported as a "
               "hang by the shim's bookkeeping; only rank 0 prints and opens the checkpoint file; exploration over generated "
               "world sizes, schedules and configurations",
    level_note="trusted: the in-process shim (lib/shim/mpi.h, 250 lines: ranks are threads run one at a time in a generated "
               "order; MPI_Allreduce folds in a generated order); real network schedules are not explored - the shim owns "
               "arrival and reduction order; every run also executes tools/mpi_crosscheck.py: a fixed set of 45 "
               "configurations under real mpirun -np 1,2,3,4,7 and under the shim must produce identical per-rank point "
               "logs and call counts (skipped as inconclusive if mpirun cannot start); 'no rank hangs' is decided in its safety form (identical collective sequences)",
    technique="rapidcheck over choice tapes on an in-process MPI shim with generated schedules; differential against the serial integrator from the recorded state",
    assumptions=ASSUME_COMMON + ["MPI semantics assumed of the shim: MPI_Allreduce(MPI_IN_PLACE, MPI_SUM) delivers the same "
                                 "value to all ranks, reduction order unspecified"],
)

NOT_APPLICABLE = {}

ENGINES = [
    dict(name="rapidcheck-tape", path="lib/harness.hpp", kind_free_text="rapidcheck over choice tapes: one decoder per "
         "property maps a vector<uint64> to a sound case; shrinking the tape shrinks the case; failures are saved as "
         "replay tapes", serves_properties=[]),
    dict(name="libfuzzer-tape", path="lib/harness.hpp", kind_free_text="the same decoders compiled with clang "
         "-fsanitize=fuzzer,address,undefined (-DVERIF_FUZZ); bytes are decoded into the choice tape, the semantic "
         "oracle is inside the target (thorough tier)", serves_properties=[]),
    dict(name="enumerate", path="lib/harness.hpp", kind_free_text="bounded exhaustive enumeration of finite "
         "sub-spaces through the same decoders", serves_properties=[]),
]

NOTES = ("All checks are ./vcheck <ID> --tier quick|thorough (python3 stdlib driver): builds the property's harness "
         "from /repo/include as it is now, replays committed regression tapes, runs bounded enumerations and "
         "rapidcheck shards seeded from VERIF_SEED, in the thorough tier also libFuzzer, confirms every failure by "
         "3 replays, writes evidence/<ID>.json. KNOWN_FINDINGS.txt lists known:/fixed: findings.")

ENGINES.append(dict(name="crash-interposer", path="props/c18.cpp", kind_free_text="file-system entry points defined in the "
                    "harness binary (they shadow libc's for libstdc++'s filebuf), fork + SIGKILL at every tracked call",
                    serves_properties=["C18"]))
ENGINES.append(dict(name="mpi-shim", path="lib/shim/mpi.h", kind_free_text="in-process MPI shim: ranks are threads that run one at a "
                    "time under a generated schedule, MPI_Allreduce with generated reduction order, collective log per rank, "
                    "logical hang detection", serves_properties=["C04"]))
for _e in ENGINES[:3]:
    _e["serves_properties"] = sorted(PROPS.keys())

# generator classes and oracle clauses added while checking the checks against seeded changes (rounds 3-7, DESIGN 8.5)
RULE_ADDENDA = {
    "C01": "; also: constant integrand min/16 (subnormal range); shim-MPI unit (shares, estimate equal to the serial run)",
    "C02": "; also: PLAIN with values of 256 denorm_min; error() is bit for bit sqrt(variance()), NaN included; shim-MPI unit with zero / finite / non-finite regions",
    "C03": "; also: distribution names with tab, CR, control and high bytes, a leading '#', backslash-n; shim-MPI unit",
    "C04": "; also: the campaign may be split into two integrator calls (continued checkpoint); an integrand that returns zero everywhere but fills its distributions",
    "C05": "; also: names starting with '#', containing backslash-n, control characters",
    "C06": "; also: chi_square_dof of the paired runs, call / finite / non-zero counters of the combinations; shim-MPI unit",
    "C07": "; also: dimensions whose ratio smoothed/norm underflows in T are judged coarsely (5 % of the total importance); the model scales data near the largest finite number",
    "C08": "; also: data whose products w W^beta are all subnormal; run level: start checkpoint through text, long double model of every refinement with the configured beta / minimum, default weights 1/n, the campaign repeated after rollback(0) with other call counts",
    "C09": "; also: integer weights with exact partial sums: every canonical number next to a boundary is decided by the exact comparison u S_n < S_i (128-bit integers); integer weights summing to 2^digits incl. a boundary at the largest canonical number",
    "C10": "; also: shim-MPI unit (every rank ends at the serial stream position), sub-communicators",
    "C11": "; also: integrand values that are integer multiples of denorm_min (differential layer)",
    "C12": "; also: second oracle without tolerance band: target := the relative error accumulate<weighted_with_variance> reports after iteration k of an identical run; per-iteration estimate and variance recomputed from sum / sum_of_squares / calls; an integrand vanishing on 90 % of the domain (NaN relative error must not end the run)",
    "C13": "; also: a result with zero calls inserted at a hashed position changes nothing; chi^2/dof of results that coincide exactly with the combination (exact small-integer construction)",
    "C14": "; also: every other value NaN / +inf / -inf; a scale at which squares overflow but sums do not, and one a few binades above min; subnormal values; float and long double shim-MPI units",
    "C15": "; also: k = 2^32 + j, 3 * 2^32 + n - 1, SIZE_MAX, SIZE_MAX - 1 are rejected and leave the checkpoint unchanged; shim-MPI unit",
    "C16": "; also: float shim-MPI unit; sub-communicators; the preceding run with other dimensions",
    "C17": "; also: VEGAS random numbers k/bins and neighbours; the logging function object and the logging map carry state by value (copies are detected); weights as a refinement hands them on after an infinite datum; the integrand with a distribution is built with the make_ helper",
    "C18": "; also: a directory in which no new file can be created (kill sweep over the calls made then); a distribution name of 2000-5000 characters; shim-MPI unit (only rank 0 opens the file)",
    "C19": "; also: independent long double models of both refinements (weights: (8+2n) eps; grid: the F-space model shared with C07); beta = 0",
    "C20": "; also: empty file name; a distribution name with a line break; a checkpoint continued with one distribution less (same outcome in all four modes)",
}
for _k, _v in RULE_ADDENDA.items():
    PROPS[_k]["rule"] += _v
